/-
C10 — helper lemmas for the result SHAPE of the generic broadcast batcher
(`broadcast_batcher_shape` in `J2O.Props.C10`).

numpy broadcasting of shapes (`bshape`, right-aligned) is analysed on the reversed shapes padded with
ones to a common length: there it is a position-wise `zipWith`, and putting the batch axis in front of
every operand (size `B` for mapped operands, `1` for unmapped ones) appends one more position.
-/
import J2O.Lemmas.C10
set_option linter.unusedSimpArgs false
set_option linter.unusedVariables false
set_option linter.unreachableTactic false
set_option linter.unusedTactic false
set_option linter.unnecessarySeqFocus false

namespace J2O.C10

/-- one position of numpy shape broadcasting (for compatible extents) -/
def gb (a b : Nat) : Nat := if a = 1 then b else a

/-- a reversed shape padded with ones (= leading singleton axes) to length `n` -/
def padOnes (n : Nat) (p : List Nat) : List Nat := p ++ List.replicate (n - p.length) 1

theorem bshapeRev_nil_left (t : List Nat) : bshapeRev [] t = t := by
  cases t <;> rfl

theorem bshapeRev_nil_right (s : List Nat) : bshapeRev s [] = s := by
  cases s <;> rfl

theorem bshapeRev_self (s : List Nat) : bshapeRev s s = s := by
  induction s with
  | nil => rfl
  | cons a s ih => simp only [bshapeRev, ih, ite_self]

theorem bshapeRev_length (p q : List Nat) : (bshapeRev p q).length = max p.length q.length := by
  induction p generalizing q with
  | nil => simp [bshapeRev_nil_left]
  | cons a p ih =>
    cases q with
    | nil => simp [bshapeRev_nil_right]
    | cons b q =>
      simp only [bshapeRev, List.length_cons, ih q]
      omega

theorem padOnes_length (n : Nat) (p : List Nat) (h : p.length ≤ n) : (padOnes n p).length = n := by
  simp only [padOnes, List.length_append, List.length_replicate]
  omega

theorem padOnes_of_length (n : Nat) (p : List Nat) (h : p.length = n) : padOnes n p = p := by
  simp [padOnes, h]

theorem padOnes_nil (n : Nat) : padOnes n [] = List.replicate n 1 := by
  simp [padOnes]

theorem padOnes_cons (n : Nat) (a : Nat) (p : List Nat) : padOnes (n + 1) (a :: p) = a :: padOnes n p := by
  simp [padOnes]

theorem padOnes_snoc_one (n : Nat) (r : List Nat) (h : r.length ≤ n) :
    padOnes (n + 1) (r ++ [1]) = padOnes n r ++ [1] := by
  simp only [padOnes, List.length_append, List.length_cons, List.length_nil, List.append_assoc]
  congr 1
  have e : n + 1 - (r.length + (0 + 1)) = n - r.length := by omega
  rw [e]
  have h1 : [1] ++ List.replicate (n - r.length) 1 = List.replicate (n - r.length + 1) 1 := by
    rw [List.replicate_succ]; rfl
  rw [h1, List.replicate_succ']

theorem zipWith_gb_ones_left (n : Nat) (l : List Nat) (h : l.length = n) :
    List.zipWith gb (List.replicate n 1) l = l := by
  induction n generalizing l with
  | zero =>
    have : l = [] := List.length_eq_zero_iff.mp h
    subst this; rfl
  | succ n ih =>
    cases l with
    | nil => simp at h
    | cons a l =>
      simp only [List.replicate_succ, List.zipWith_cons_cons, gb, if_true]
      rw [ih l (by simpa using h)]

theorem zipWith_gb_ones_right (n : Nat) (l : List Nat) (h : l.length = n) :
    List.zipWith gb l (List.replicate n 1) = l := by
  induction n generalizing l with
  | zero =>
    have : l = [] := List.length_eq_zero_iff.mp h
    subst this; rfl
  | succ n ih =>
    cases l with
    | nil => simp at h
    | cons a l =>
      simp only [List.replicate_succ, List.zipWith_cons_cons]
      rw [ih l (by simpa using h)]
      congr 1
      unfold gb
      split
      · next h1 => exact h1.symm
      · rfl

/-- on shapes padded to a common length, broadcasting is position-wise -/
theorem bshapeRev_pad (n : Nat) (p q : List Nat) (hp : p.length ≤ n) (hq : q.length ≤ n) :
    padOnes n (bshapeRev p q) = List.zipWith gb (padOnes n p) (padOnes n q) := by
  induction p generalizing q n with
  | nil =>
    rw [bshapeRev_nil_left, padOnes_nil, zipWith_gb_ones_left n _ (padOnes_length n q hq)]
  | cons a p ih =>
    cases q with
    | nil =>
      rw [bshapeRev_nil_right, padOnes_nil, zipWith_gb_ones_right n _ (padOnes_length n _ hp)]
    | cons b q =>
      cases n with
      | zero => simp at hp
      | succ n =>
        simp only [bshapeRev, padOnes_cons, List.zipWith_cons_cons]
        rw [ih n q (by simpa using hp) (by simpa using hq)]
        rfl

/-- right-to-left broadcasting of a list of reversed shapes -/
def foldRev (ps : List (List Nat)) : List Nat := ps.foldr bshapeRev []

/-- the same on shapes padded to length `n` -/
def foldPad (n : Nat) (ps : List (List Nat)) : List Nat :=
  ps.foldr (fun p acc => List.zipWith gb (padOnes n p) acc) (List.replicate n 1)

theorem bshape_eq_foldRev (ss : List (List Nat)) :
    bshape ss = (foldRev (ss.map List.reverse)).reverse := by
  induction ss with
  | nil => rfl
  | cons s ss ih =>
    simp only [bshape, bshape2, ih, List.reverse_reverse, List.map_cons, foldRev, List.foldr_cons]

theorem foldRev_length_le (n : Nat) (ps : List (List Nat)) (h : ∀ p ∈ ps, p.length ≤ n) :
    (foldRev ps).length ≤ n := by
  induction ps with
  | nil => simp [foldRev]
  | cons p ps ih =>
    simp only [foldRev, List.foldr_cons, bshapeRev_length]
    have h1 := h p (by simp)
    have h2 := ih (fun q hq => h q (by simp [hq]))
    simp only [foldRev] at h2
    omega

theorem foldRev_length_ge (ps : List (List Nat)) (p : List Nat) (hp : p ∈ ps) :
    p.length ≤ (foldRev ps).length := by
  induction ps with
  | nil => simp at hp
  | cons q ps ih =>
    simp only [foldRev, List.foldr_cons, bshapeRev_length]
    rcases List.mem_cons.mp hp with rfl | h
    · omega
    · have := ih h
      simp only [foldRev] at this
      omega

theorem foldPad_length (n : Nat) (ps : List (List Nat)) (h : ∀ p ∈ ps, p.length ≤ n) :
    (foldPad n ps).length = n := by
  induction ps with
  | nil => simp [foldPad]
  | cons p ps ih =>
    have h2 := ih (fun q hq => h q (by simp [hq]))
    simp only [foldPad, List.foldr_cons, List.length_zipWith] at h2 ⊢
    rw [h2, padOnes_length n p (h p (by simp))]
    omega

theorem foldRev_pad (n : Nat) (ps : List (List Nat)) (h : ∀ p ∈ ps, p.length ≤ n) :
    padOnes n (foldRev ps) = foldPad n ps := by
  induction ps with
  | nil => simp [foldRev, foldPad, padOnes_nil]
  | cons p ps ih =>
    have hps : ∀ q ∈ ps, q.length ≤ n := fun q hq => h q (by simp [hq])
    have h2 := ih hps
    have hl := foldRev_length_le n ps hps
    simp only [foldRev, foldPad, List.foldr_cons] at h2 hl ⊢
    rw [bshapeRev_pad n p _ (h p (by simp)) hl, h2]

/-- Putting one more (outermost) axis on every operand: if the padded reversed shape of each moved
    operand is the padded reversed per-example shape followed by `x`, the broadcast of the moved
    shapes is the broadcast of the per-example shapes followed by the broadcast of the `x`s. -/
theorem foldPad_snoc (n : Nat) (L : List (List Nat × List Nat × Nat))
    (hlen : ∀ t ∈ L, t.2.1.length ≤ n)
    (h : ∀ t ∈ L, padOnes (n + 1) t.1 = padOnes n t.2.1 ++ [t.2.2]) :
    foldPad (n + 1) (L.map (·.1)) =
      foldPad n (L.map (·.2.1)) ++ [(L.map (·.2.2)).foldr gb 1] := by
  induction L with
  | nil => simp [foldPad, List.replicate_succ']
  | cons t L ih =>
    have hL : ∀ u ∈ L, u.2.1.length ≤ n := fun u hu => hlen u (by simp [hu])
    have h2 := ih hL (fun u hu => h u (by simp [hu]))
    have hfl : (foldPad n (L.map (·.2.1))).length = n := by
      apply foldPad_length
      intro p hp
      obtain ⟨u, hu, rfl⟩ := List.mem_map.mp hp
      exact hL u hu
    simp only [foldPad, List.map_cons, List.foldr_cons] at h2 hfl ⊢
    rw [h2, h t (by simp)]
    rw [List.zipWith_append (by rw [padOnes_length n _ (hlen t (by simp)), hfl])]
    rfl

theorem foldr_gb_mem (B : Nat) (xs : List Nat) (hall : ∀ x ∈ xs, x = 1 ∨ x = B) :
    xs.foldr gb 1 = 1 ∨ xs.foldr gb 1 = B := by
  induction xs with
  | nil => left; rfl
  | cons x xs ih =>
    have h2 := ih (fun y hy => hall y (by simp [hy]))
    simp only [List.foldr_cons, gb]
    split
    · exact h2
    · next hx =>
      rcases hall x (by simp) with h | h
      · exact absurd h hx
      · right; exact h

theorem foldr_gb_eq (B : Nat) (xs : List Nat) (hall : ∀ x ∈ xs, x = 1 ∨ x = B) (hex : B ∈ xs) :
    xs.foldr gb 1 = B := by
  induction xs with
  | nil => simp at hex
  | cons x xs ih =>
    have hall2 : ∀ y ∈ xs, y = 1 ∨ y = B := fun y hy => hall y (by simp [hy])
    simp only [List.foldr_cons, gb]
    split
    · next hx =>
      rcases List.mem_cons.mp hex with h | h
      · -- B = x = 1
        rcases foldr_gb_mem B xs hall2 with h3 | h3
        · rw [h3, h, hx]
        · exact h3
      · exact ih hall2 h
    · next hx =>
      rcases hall x (by simp) with h | h
      · exact absurd h hx
      · exact h

/-- **Broadcast of shapes with a batch axis in front.**  `L` lists, per operand, the shape the primitive
    is bound to, the per-example shape and the extent `x ∈ {1, B}` of the front axis. -/
theorem bshape_front (n B : Nat) (L : List (List Nat × List Nat × Nat))
    (hrel : ∀ t ∈ L, padOnes (n + 1) t.1.reverse = padOnes n t.2.1.reverse ++ [t.2.2])
    (hlen : ∀ t ∈ L, t.2.1.length ≤ n) (hlen1 : ∀ t ∈ L, t.1.length ≤ n + 1)
    (hx : ∀ t ∈ L, t.2.2 = 1 ∨ t.2.2 = B)
    (hB : ∃ t ∈ L, t.2.2 = B ∧ t.1.length = n + 1)
    (hn : ∃ t ∈ L, t.2.1.length = n) :
    bshape (L.map (·.1)) = B :: bshape (L.map (·.2.1)) := by
  rw [bshape_eq_foldRev, bshape_eq_foldRev]
  set ms := (L.map (·.1)).map List.reverse with hms
  set ps := (L.map (·.2.1)).map List.reverse with hps
  have hmsl : ∀ p ∈ ms, p.length ≤ n + 1 := by
    intro p hp
    simp only [hms, List.map_map, List.mem_map, Function.comp] at hp
    obtain ⟨t, ht, rfl⟩ := hp
    simpa using hlen1 t ht
  have hpsl : ∀ p ∈ ps, p.length ≤ n := by
    intro p hp
    simp only [hps, List.map_map, List.mem_map, Function.comp] at hp
    obtain ⟨t, ht, rfl⟩ := hp
    simpa using hlen t ht
  -- lengths of the two broadcasts
  have hRm : (foldRev ms).length = n + 1 := by
    apply Nat.le_antisymm (foldRev_length_le _ ms hmsl)
    obtain ⟨t, ht, _, hl⟩ := hB
    have : t.1.reverse ∈ ms := by
      simp only [hms, List.map_map, List.mem_map, Function.comp]
      exact ⟨t, ht, rfl⟩
    have := foldRev_length_ge ms _ this
    simpa [hl] using this
  have hRp : (foldRev ps).length = n := by
    apply Nat.le_antisymm (foldRev_length_le _ ps hpsl)
    obtain ⟨t, ht, hl⟩ := hn
    have : t.2.1.reverse ∈ ps := by
      simp only [hps, List.map_map, List.mem_map, Function.comp]
      exact ⟨t, ht, rfl⟩
    have := foldRev_length_ge ps _ this
    simpa [hl] using this
  -- the padded computation
  let L' : List (List Nat × List Nat × Nat) := L.map fun t => (t.1.reverse, t.2.1.reverse, t.2.2)
  have e1 : L'.map (·.1) = ms := by simp [L', hms, List.map_map, Function.comp]
  have e2 : L'.map (·.2.1) = ps := by simp [L', hps, List.map_map, Function.comp]
  have e3 : L'.map (·.2.2) = L.map (·.2.2) := by simp [L', List.map_map, Function.comp]
  have hsn := foldPad_snoc n L'
    (by
      intro t ht
      obtain ⟨u, hu, rfl⟩ := List.mem_map.mp ht
      simpa using hlen u hu)
    (by
      intro t ht
      obtain ⟨u, hu, rfl⟩ := List.mem_map.mp ht
      exact hrel u hu)
  rw [e1, e2, e3] at hsn
  have hxB : (L.map (·.2.2)).foldr gb 1 = B := by
    apply foldr_gb_eq
    · intro x hx'
      obtain ⟨t, ht, rfl⟩ := List.mem_map.mp hx'
      exact hx t ht
    · obtain ⟨t, ht, hb, _⟩ := hB
      exact List.mem_map.mpr ⟨t, ht, hb⟩
  rw [hxB, ← foldRev_pad (n + 1) ms hmsl, ← foldRev_pad n ps hpsl,
    padOnes_of_length _ _ hRm, padOnes_of_length _ _ hRp] at hsn
  rw [hsn, List.reverse_append]
  rfl

/-! ## the fast path: all non-scalar operands have the same shape -/

theorem bshape2_nil_left (t : List Nat) : bshape2 [] t = t := by
  simp [bshape2, bshapeRev_nil_left]

theorem bshape2_nil_right (s : List Nat) : bshape2 s [] = s := by
  simp [bshape2, bshapeRev_nil_right]

theorem bshape2_self (s : List Nat) : bshape2 s s = s := by
  simp [bshape2, bshapeRev_self]

theorem bshape_const_mem (t : List Nat) (ss : List (List Nat)) (hall : ∀ s ∈ ss, s = [] ∨ s = t) :
    bshape ss = [] ∨ bshape ss = t := by
  induction ss with
  | nil => left; rfl
  | cons s ss ih =>
    have h2 := ih (fun u hu => hall u (by simp [hu]))
    simp only [bshape]
    rcases hall s (by simp) with hs | hs <;> rcases h2 with hr | hr <;> rw [hs, hr]
    · left; rfl
    · right; exact bshape2_nil_left t
    · right; exact bshape2_nil_right t
    · right; exact bshape2_self t

theorem bshape_const (t : List Nat) (ss : List (List Nat)) (hall : ∀ s ∈ ss, s = [] ∨ s = t)
    (hex : t ∈ ss) : bshape ss = t := by
  induction ss with
  | nil => simp at hex
  | cons s ss ih =>
    have hall2 : ∀ u ∈ ss, u = [] ∨ u = t := fun u hu => hall u (by simp [hu])
    simp only [bshape]
    rcases List.mem_cons.mp hex with h | h
    · -- s = t
      rcases bshape_const_mem t ss hall2 with hr | hr <;> rw [← h, hr]
      · exact bshape2_nil_right t
      · exact bshape2_self t
    · rw [ih hall2 h]
      rcases hall s (by simp) with hs | hs <;> rw [hs]
      · exact bshape2_nil_left t
      · exact bshape2_self t

theorem insertAt_removeAt (k B : Nat) (s : List Nat) (hk : k < s.length) (hB : s.getD k 1 = B) :
    insertAt k B (removeAt k s) = s := by
  induction k generalizing s with
  | zero =>
    cases s with
    | nil => simp at hk
    | cons a s =>
      simp only [List.getD_cons_zero] at hB
      rw [removeAt_zero, insertAt_zero, hB]
  | succ k ih =>
    cases s with
    | nil => simp at hk
    | cons a s =>
      rw [removeAt_succ]
      cases hr : removeAt k s with
      | nil =>
        -- impossible: removeAt k s has length s.length - 1 ≥ ... handle generally through ih
        have := ih s (by simpa using hk) (by simpa using hB)
        rw [hr] at this
        rw [← this]
        simp [insertAt]
      | cons c r =>
        have := ih s (by simpa using hk) (by simpa using hB)
        rw [hr] at this
        rw [insertAt_succ, this]

theorem maxRank_attained {α : Type} (xs : List (Tensor α)) (h : xs ≠ []) :
    ∃ x ∈ xs, x.rank = maxRank xs := by
  induction xs with
  | nil => exact absurd rfl h
  | cons y ys ih =>
    by_cases hys : ys = []
    · subst hys
      exact ⟨y, by simp, by simp [maxRank]⟩
    · obtain ⟨x, hx, hr⟩ := ih hys
      simp only [maxRank]
      by_cases hle : maxRank ys ≤ y.rank
      · exact ⟨y, by simp, by omega⟩
      · exact ⟨x, by simp [hx], by omega⟩


/-! ## the broadcasting path, per operand -/

/-- extent of the front axis of an operand after `bdim_at_front(x, d, 1)` -/
def frontExtent (B : Nat) (d : Option Nat) : Nat := match d with | some _ => B | none => 1

theorem slow_shape_rel {α : Type} (p : Tensor α × Option Nat) (n b B : Nat)
    (hk : ∀ k, p.2 = some k → k < p.1.rank ∧ p.1.shape.getD k 1 = B)
    (hR : ∀ k, p.2 = some k → p.1.rank = n + 1 ∨ p.1.rank = 1)
    (hle : p.2 = none → p.1.rank ≠ 0 → p.1.rank + 1 ≤ n + 1) :
    padOnes (n + 1) (slowArg (n + 1) p).shape.reverse =
        padOnes n (lane p.1 p.2 b).shape.reverse ++ [frontExtent B p.2] ∧
      (lane p.1 p.2 b).shape.length ≤ n ∧ (slowArg (n + 1) p).shape.length ≤ n + 1 ∧
      (∀ k, p.2 = some k → (slowArg (n + 1) p).shape.length = n + 1) := by
  obtain ⟨x, d⟩ := p
  dsimp only at hk hR hle ⊢
  cases d with
  | none =>
    simp only [slowArg, handleScalar, true_or, if_true, lane, frontExtent]
    by_cases h0 : x.rank = 0
    · have hs : x.shape = [] := List.length_eq_zero_iff.mp h0
      simp only [h0, if_true, hs, List.reverse_nil, padOnes_nil, List.length_nil]
      refine ⟨List.replicate_succ', by omega, by omega, ?_⟩
      intro k hk'; exact absurd hk' (by simp)
    · have hl := hle rfl h0
      simp only [Tensor.rank] at hl h0
      simp only [Tensor.rank, h0, if_false, bdimAtFront, List.reverse_cons, List.length_cons]
      refine ⟨padOnes_snoc_one n _ (by simp; omega), by omega, by omega, ?_⟩
      intro k hk'; exact absurd hk' (by simp)
  | some k =>
    obtain ⟨hkr, hB⟩ := hk k rfl
    have h0 : x.rank ≠ 0 := by omega
    have hfront : (bdimAtFront x (some k)).rank = x.rank := bdimAtFront_rank_some x k hkr
    have hrem : (removeAt k x.shape).length = x.rank - 1 := removeAt_length k x.shape hkr
    simp only [slowArg, h0, if_false, lane, frontExtent]
    by_cases hnd : n + 1 = x.rank
    · -- full rank (or a per-example scalar when n = 0): nothing is expanded
      have e : handleScalar (n + 1) (bdimAtFront x (some k)) (some k) = bdimAtFront x (some k) := by
        simp [handleScalar, hfront, hnd]
      rw [e]
      simp only [bdimAtFront, List.reverse_cons, List.length_cons, hB]
      have hl : (removeAt k x.shape).reverse.length = n := by
        rw [List.length_reverse, hrem]; omega
      refine ⟨?_, by rw [hrem]; omega, by rw [hrem]; omega, fun _ _ => by rw [hrem]; omega⟩
      rw [padOnes_of_length n _ hl, padOnes_of_length (n + 1) _ (by simp [hl])]
    · -- per-example scalar, expanded with trailing singleton axes
      have hone : x.rank = 1 := by
        rcases hR k rfl with h | h
        · exact absurd h.symm hnd
        · exact h
      have hs' : removeAt k x.shape = [] := List.length_eq_zero_iff.mp (by rw [hrem]; omega)
      have e : handleScalar (n + 1) (bdimAtFront x (some k)) (some k) =
          expandTrailing (n + 1) (bdimAtFront x (some k)) := by
        simp only [handleScalar, reduceCtorEq, false_or, hfront]
        rw [if_neg hnd]
      rw [e]
      simp only [expandTrailing, bdimAtFront, hs', hB, List.length_cons, List.length_nil,
        List.reverse_nil, padOnes_nil, List.cons_append, List.nil_append, List.reverse_cons,
        List.reverse_replicate, List.length_replicate]
      have e2 : n + 1 - (0 + 1) = n := by omega
      rw [e2]
      refine ⟨?_, by omega, by omega, fun _ _ => by omega⟩
      exact padOnes_of_length (n + 1) _ (by simp)

/-- **Result shape of the generic broadcast batcher** (both code paths). -/
theorem broadcast_batcher_shape_aux {α : Type} (f : List α → α) (args : List (Tensor α × Option Nat))
    (B b : Nat)
    (hwf : ∀ p ∈ args, ∀ k, p.2 = some k → k < p.1.rank ∧ p.1.shape.getD k 1 = B)
    (hR : ∀ p ∈ args, ∀ k, p.2 = some k → p.1.rank = ndimOf args ∨ p.1.rank = 1)
    (out : Tensor α) (od : Nat) (hrun : broadcastBatcher f args = some (out, od)) :
    out.shape = insertAt od B (bshape (args.map fun p => (lane p.1 p.2 b).shape)) := by
  unfold broadcastBatcher at hrun
  split at hrun
  · exact absurd hrun (by simp)
  · cases hfm : firstMapped args with
    | none => rw [hfm] at hrun; exact absurd hrun (by simp)
    | some sd =>
      obtain ⟨shape, dim⟩ := sd
      rw [hfm] at hrun
      dsimp only at hrun
      obtain ⟨x0, hx0, hs0⟩ := firstMapped_mem args shape dim hfm
      obtain ⟨hk0, hB0⟩ := hwf _ hx0 dim rfl
      dsimp only at hk0 hB0
      split at hrun
      · next hall =>
        simp only [Option.some.injEq, Prod.mk.injEq] at hrun
        obtain ⟨rfl, rfl⟩ := hrun
        have hall' : ∀ p ∈ args, p.1.rank = 0 ∨ (p.1.shape = shape ∧ p.2 = some dim) := by
          intro p hp
          have := List.all_eq_true.mp hall p hp
          simp only [Bool.or_eq_true, beq_iff_eq, Bool.and_eq_true] at this
          exact this
        have hL : bshape ((args.map (·.1)).map (·.shape)) = shape := by
          apply bshape_const
          · intro s hs
            simp only [List.map_map, List.mem_map, Function.comp] at hs
            obtain ⟨p, hp, rfl⟩ := hs
            rcases hall' p hp with h0 | ⟨h1, _⟩
            · left; exact List.length_eq_zero_iff.mp h0
            · right; exact h1
          · simp only [List.map_map, List.mem_map, Function.comp]
            exact ⟨(x0, some dim), hx0, hs0⟩
        have hRr : bshape (args.map fun p => (lane p.1 p.2 b).shape) = removeAt dim shape := by
          apply bshape_const
          · intro s hs
            obtain ⟨p, hp, rfl⟩ := List.mem_map.mp hs
            rcases hall' p hp with h0 | ⟨h1, hd⟩
            · left
              have hnone : p.2 = none := by
                cases hd : p.2 with
                | none => rfl
                | some k => have := (hwf p hp k hd).1; omega
              simp only [hnone, lane]
              exact List.length_eq_zero_iff.mp h0
            · right; simp only [hd, lane, h1]
          · apply List.mem_map.mpr
            exact ⟨(x0, some dim), hx0, by simp only [lane, hs0]⟩
        simp only [bindPointwise]
        rw [hL, hRr]
        subst hs0
        exact (insertAt_removeAt dim B x0.shape hk0 hB0).symm
      · next hnall =>
        simp only [Option.some.injEq, Prod.mk.injEq] at hrun
        obtain ⟨rfl, rfl⟩ := hrun
        rw [a2_eq]
        simp only [bindPointwise, insertAt_zero]
        -- ndim = n + 1
        have hx0front : bdimAtFront x0 (some dim) ∈
            args.map fun p => if p.1.rank = 0 then p.1 else bdimAtFront p.1 p.2 := by
          apply List.mem_map.mpr
          refine ⟨(x0, some dim), hx0, ?_⟩
          have : x0.rank ≠ 0 := by omega
          simp [this]
        have hnd1 : 1 ≤ ndimOf args := by
          have := rank_le_maxRank _ _ hx0front
          rw [bdimAtFront_rank_some x0 dim hk0] at this
          simp only [ndimOf]; omega
        obtain ⟨n, hn⟩ : ∃ n, ndimOf args = n + 1 := ⟨ndimOf args - 1, by omega⟩
        rw [hn] at hR ⊢
        have hrel : ∀ p ∈ args, _ := fun p hp =>
          slow_shape_rel p n b B (hwf p hp) (hR p hp) (by
            intro hnone h0
            have hmem : bdimAtFront p.1 p.2 ∈ args.map fun p => if p.1.rank = 0 then p.1 else bdimAtFront p.1 p.2 := by
              apply List.mem_map.mpr
              exact ⟨p, hp, by simp [h0]⟩
            have h1 := rank_le_maxRank _ _ hmem
            have hn' : maxRank (args.map fun p => if p.1.rank = 0 then p.1 else bdimAtFront p.1 p.2) = n + 1 := hn
            rw [hn', hnone] at h1
            simp only [bdimAtFront, Tensor.rank, List.length_cons] at h1
            simp only [Tensor.rank]
            omega)
        let L : List (List Nat × List Nat × Nat) :=
          args.map fun p => ((slowArg (n + 1) p).shape, (lane p.1 p.2 b).shape, frontExtent B p.2)
        have e1 : L.map (·.1) = (args.map (slowArg (n + 1))).map (·.shape) := by
          simp [L, List.map_map, Function.comp]
        have e2 : L.map (·.2.1) = args.map fun p => (lane p.1 p.2 b).shape := by
          simp [L, List.map_map, Function.comp]
        rw [← e1, ← e2]
        apply bshape_front n B L
        · intro t ht
          obtain ⟨p, hp, rfl⟩ := List.mem_map.mp ht
          exact (hrel p hp).1
        · intro t ht
          obtain ⟨p, hp, rfl⟩ := List.mem_map.mp ht
          exact (hrel p hp).2.1
        · intro t ht
          obtain ⟨p, hp, rfl⟩ := List.mem_map.mp ht
          exact (hrel p hp).2.2.1
        · intro t ht
          obtain ⟨p, hp, rfl⟩ := List.mem_map.mp ht
          dsimp only
          cases p.2 <;> simp [frontExtent]
        · refine ⟨_, List.mem_map.mpr ⟨(x0, some dim), hx0, rfl⟩, rfl, ?_⟩
          exact (hrel _ hx0).2.2.2 dim rfl
        · -- some operand has per-example rank n: the one whose moved rank is `ndim`
          have hne : (args.map fun p => if p.1.rank = 0 then p.1 else bdimAtFront p.1 p.2) ≠ [] := by
            intro h
            rw [h] at hx0front
            simp at hx0front
          obtain ⟨t, ht, hr⟩ := maxRank_attained _ hne
          have hn' : maxRank (args.map fun p => if p.1.rank = 0 then p.1 else bdimAtFront p.1 p.2) = n + 1 := hn
          rw [hn'] at hr
          obtain ⟨p, hp, rfl⟩ := List.mem_map.mp ht
          refine ⟨_, List.mem_map.mpr ⟨p, hp, rfl⟩, ?_⟩
          dsimp only
          by_cases h0 : p.1.rank = 0
          · simp only [h0, if_true] at hr; omega
          · simp only [h0, if_false] at hr
            cases hd : p.2 with
            | none =>
              rw [hd] at hr
              simp only [bdimAtFront, Tensor.rank, List.length_cons] at hr
              simp only [lane]; omega
            | some k =>
              rw [hd] at hr
              have hkp := (hwf p hp k hd).1
              rw [bdimAtFront_rank_some p.1 k hkp] at hr
              simp only [lane]
              rw [removeAt_length k p.1.shape hkp]
              simp only [Tensor.rank] at hr; omega

end J2O.C10
