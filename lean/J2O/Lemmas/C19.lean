/-
C19 — helper lemmas about the binding model (core Lean only).
`binds` depends on the positional count only through comparisons with the number of positional
parameters, and on the keyword names only through membership tests.
-/
import J2O.Model.C19
set_option linter.unusedSimpArgs false
set_option linter.unusedVariables false
set_option linter.unusedSectionVars false

namespace J2O.C19
variable {α : Type} [DecidableEq α]

/-! ### positional count -/

theorem checkPos_cap (ps : List (Param α)) (kw : List α) :
    ∀ n m, ps.length ≤ n → ps.length ≤ m → checkPos ps n kw = checkPos ps m kw := by
  induction ps with
  | nil => intro n m _ _; simp [checkPos]
  | cons p ps ih =>
    intro n m hn hm
    cases n with
    | zero => simp at hn
    | succ n =>
      cases m with
      | zero => simp at hm
      | succ m =>
        simp only [checkPos]
        rw [ih n m (by simpa using hn) (by simpa using hm)]

theorem binds_cap (S : Sig α) (n cap : Nat) (kw : List α) (hcap : (posParams S).length < cap) :
    binds S ⟨min n cap, kw⟩ = binds S ⟨n, kw⟩ := by
  by_cases h : n ≤ cap
  · rw [Nat.min_eq_left h]
  · have hn : cap < n := Nat.lt_of_not_le h
    rw [Nat.min_eq_right (Nat.le_of_lt hn)]
    simp only [binds]
    rw [checkPos_cap (posParams S) kw cap n (Nat.le_of_lt hcap) (by omega)]
    have h1 : decide (cap ≤ (posParams S).length) = decide (n ≤ (posParams S).length) := by
      have a : ¬ cap ≤ (posParams S).length := by omega
      have b : ¬ n ≤ (posParams S).length := by omega
      simp [a, b]
    rw [h1]

/-! ### keyword names: only membership matters -/

theorem hitBy_congr (p : Param α) (kw kw' : List α) (h : p.name ∈ kw ↔ p.name ∈ kw') :
    hitBy p kw = hitBy p kw' := by
  simp only [hitBy]
  have : decide (p.name ∈ kw) = decide (p.name ∈ kw') := by
    by_cases a : p.name ∈ kw
    · simp [a, h.mp a]
    · have b : p.name ∉ kw' := fun hb => a (h.mpr hb)
      simp [a, b]
  rw [this]

theorem checkPos_congr (ps : List (Param α)) (kw kw' : List α)
    (h : ∀ p ∈ ps, (p.name ∈ kw ↔ p.name ∈ kw')) :
    ∀ n, checkPos ps n kw = checkPos ps n kw' := by
  induction ps with
  | nil => intro n; simp [checkPos]
  | cons p ps ih =>
    intro n
    have hp := hitBy_congr p kw kw' (h p (List.mem_cons_self ..))
    have ih' := ih (fun q hq => h q (List.mem_cons_of_mem _ hq))
    cases n with
    | zero => simp only [checkPos, hp, ih' 0]
    | succ n => simp only [checkPos, hp, ih' n]

theorem checkKwOnly_congr (S : Sig α) (kw kw' : List α)
    (h : ∀ p ∈ S, (p.name ∈ kw ↔ p.name ∈ kw')) :
    checkKwOnly S kw = checkKwOnly S kw' := by
  simp only [checkKwOnly]
  have key : ∀ p ∈ S, decide (p.name ∈ kw) = decide (p.name ∈ kw') := by
    intro p hp
    by_cases a : p.name ∈ kw
    · simp [a, (h p hp).mp a]
    · have b : p.name ∉ kw' := fun hb => a ((h p hp).mpr hb)
      simp [a, b]
  rw [Bool.eq_iff_iff]
  simp only [List.all_eq_true]
  constructor
  · intro a p hp; rw [← key p hp]; exact a p hp
  · intro a p hp; rw [key p hp]; exact a p hp

theorem mem_posParams {S : Sig α} {p : Param α} (h : p ∈ posParams S) : p ∈ S := by
  simp only [posParams, List.mem_filter] at h
  exact h.1

/-- `binds` is determined by the positional count, by which parameter names occur among the
    keywords, and by whether all keywords are acceptable. -/
theorem binds_congr (S : Sig α) (n : Nat) (kw kw' : List α)
    (hmem : ∀ p ∈ S, (p.name ∈ kw ↔ p.name ∈ kw'))
    (hacc : kwAccepted S kw = kwAccepted S kw') :
    binds S ⟨n, kw⟩ = binds S ⟨n, kw'⟩ := by
  simp only [binds]
  rw [hacc, checkKwOnly_congr S kw kw' hmem,
      checkPos_congr (posParams S) kw kw' (fun p hp => hmem p (mem_posParams hp)) n]

/-- Same set of keyword names ⇒ same verdict (order and repetitions are irrelevant). -/
theorem binds_set_congr (S : Sig α) (n : Nat) (kw kw' : List α)
    (h : ∀ k, k ∈ kw ↔ k ∈ kw') : binds S ⟨n, kw⟩ = binds S ⟨n, kw'⟩ := by
  apply binds_congr S n kw kw' (fun p _ => h p.name)
  simp only [kwAccepted]
  rw [Bool.eq_iff_iff]
  simp only [List.all_eq_true]
  constructor
  · intro a k hk; exact a k ((h k).mpr hk)
  · intro a k hk; exact a k ((h k).mp hk)

theorem kwTarget_false_of_not_name (S : Sig α) (k : α) (h : k ∉ names S) : kwTarget S k = false := by
  simp only [kwTarget]
  rw [Bool.eq_false_iff]
  intro hc
  simp only [List.any_eq_true, Bool.and_eq_true, decide_eq_true_eq] at hc
  obtain ⟨p, hp, _, rfl⟩ := hc
  exact h (List.mem_map.mpr ⟨p, hp, rfl⟩)

/-- Collapsing the names that are not parameter names of `S` (nor in the rest of `K`) to a
    fresh name does not change the verdict. -/
theorem binds_collapse (S : Sig α) (K : List α) (fresh : α) (n : Nat) (kw : List α)
    (hK : ∀ k ∈ names S, k ∈ K) (hf : fresh ∉ K) :
    binds S ⟨n, kw.map (collapse K fresh)⟩ = binds S ⟨n, kw⟩ := by
  apply binds_congr
  · intro p hp
    have hpK : p.name ∈ K := hK _ (List.mem_map.mpr ⟨p, hp, rfl⟩)
    constructor
    · intro h
      obtain ⟨k, hk, e⟩ := List.mem_map.mp h
      unfold collapse at e
      split at e
      · rw [← e]; exact hk
      · rw [← e] at hpK; exact absurd hpK hf
    · intro h
      exact List.mem_map.mpr ⟨p.name, h, by simp [collapse, hpK]⟩
  · simp only [kwAccepted, List.all_map]
    congr 1
    funext k
    simp only [Function.comp]
    by_cases hk : k ∈ K
    · simp [collapse, hk]
    · have hfn : fresh ∉ names S := fun h => hf (hK _ h)
      have hkn : k ∉ names S := fun h => hk (hK _ h)
      simp [collapse, hk, kwTarget_false_of_not_name S fresh hfn, kwTarget_false_of_not_name S k hkn]

/-- Without `**kwargs` every accepted keyword names a keyword-addressable parameter. -/
theorem kw_subset_of_binds (S : Sig α) (c : Call α) (hv : hasVarKw S = false)
    (h : binds S c = true) :
    ∀ k ∈ c.kw, k ∈ (S.filter (fun p => p.kind.isKwAddr)).map (·.name) := by
  intro k hk
  simp only [binds, Bool.and_eq_true, kwAccepted, List.all_eq_true] at h
  have := h.1.1.2 k hk
  rw [hv, Bool.or_false] at this
  simp only [kwTarget, List.any_eq_true, Bool.and_eq_true, decide_eq_true_eq] at this
  obtain ⟨p, hp, ha, rfl⟩ := this
  exact List.mem_map.mpr ⟨p, List.mem_filter.mpr ⟨hp, ha⟩, rfl⟩

/-! ### subsets -/

theorem filter_mem_subsets (f : α → Bool) (l : List α) : l.filter f ∈ subsets l := by
  induction l with
  | nil => simp [subsets]
  | cons x xs ih =>
    simp only [subsets, List.mem_append, List.mem_map]
    by_cases hx : f x = true
    · right; exact ⟨xs.filter f, ih, by simp [List.filter, hx]⟩
    · left; simpa [List.filter, hx] using ih

theorem sublist_of_mem_subsets (l s : List α) (h : s ∈ subsets l) : s.Sublist l := by
  induction l generalizing s with
  | nil => simp [subsets] at h; subst h; exact List.Sublist.refl _
  | cons x xs ih =>
    simp only [subsets, List.mem_append, List.mem_map] at h
    rcases h with h | ⟨t, ht, rfl⟩
    · exact (ih s h).cons x
    · exact (ih t ht).cons_cons x

/-! ### fresh names -/

theorem lt_freshNat (l : List Nat) : ∀ x ∈ l, x < freshNat l := by
  induction l with
  | nil => intro x hx; simp at hx
  | cons a as ih =>
    intro x hx
    simp only [freshNat, List.foldr] at *
    rcases List.mem_cons.mp hx with rfl | h
    · omega
    · have := ih x h; omega

theorem freshNat_not_mem (l : List Nat) : freshNat l ∉ l :=
  fun h => Nat.lt_irrefl _ (lt_freshNat l _ h)

theorem names_subset_known_left (O W : Sig α) : ∀ k ∈ names O, k ∈ knownNames O W := by
  intro k hk; simp [knownNames, hk]

theorem names_subset_known_right (O W : Sig α) : ∀ k ∈ names W, k ∈ knownNames O W := by
  intro k hk
  by_cases h : k ∈ names O
  · simp [knownNames, h]
  · simp [knownNames, hk, h]

end J2O.C19
