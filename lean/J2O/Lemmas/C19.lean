/-
C19 — helper lemmas about the binding model (core Lean only).
`binds` depends on the positional count only through comparisons with the number of positional
parameters, and on the keyword names only through membership tests.
-/
import J2O.Model.C19
set_option linter.unusedSimpArgs false
set_option linter.unusedVariables false
set_option linter.unusedSectionVars false

namespace J2O.C19
variable {α : Type} [DecidableEq α]

/-! ### positional count -/

theorem checkPos_cap (ps : List (Param α)) (kw : List α) :
    ∀ n m, ps.length ≤ n → ps.length ≤ m → checkPos ps n kw = checkPos ps m kw := by
  induction ps with
  | nil => intro n m _ _; simp [checkPos]
  | cons p ps ih =>
    intro n m hn hm
    cases n with
    | zero => simp at hn
    | succ n =>
      cases m with
      | zero => simp at hm
      | succ m =>
        simp only [checkPos]
        rw [ih n m (by simpa using hn) (by simpa using hm)]

theorem binds_cap (S : Sig α) (n cap : Nat) (kw : List α) (hcap : (posParams S).length < cap) :
    binds S ⟨min n cap, kw⟩ = binds S ⟨n, kw⟩ := by
  by_cases h : n ≤ cap
  · rw [Nat.min_eq_left h]
  · have hn : cap < n := Nat.lt_of_not_le h
    rw [Nat.min_eq_right (Nat.le_of_lt hn)]
    simp only [binds]
    rw [checkPos_cap (posParams S) kw cap n (Nat.le_of_lt hcap) (by omega)]
    have h1 : decide (cap ≤ (posParams S).length) = decide (n ≤ (posParams S).length) := by
      have a : ¬ cap ≤ (posParams S).length := by omega
      have b : ¬ n ≤ (posParams S).length := by omega
      simp [a, b]
    rw [h1]

/-! ### keyword names: only membership matters -/

theorem hitBy_congr (p : Param α) (kw kw' : List α) (h : p.name ∈ kw ↔ p.name ∈ kw') :
    hitBy p kw = hitBy p kw' := by
  simp only [hitBy]
  have : decide (p.name ∈ kw) = decide (p.name ∈ kw') := by
    by_cases a : p.name ∈ kw
    · simp [a, h.mp a]
    · have b : p.name ∉ kw' := fun hb => a (h.mpr hb)
      simp [a, b]
  rw [this]

theorem checkPos_congr (ps : List (Param α)) (kw kw' : List α)
    (h : ∀ p ∈ ps, (p.name ∈ kw ↔ p.name ∈ kw')) :
    ∀ n, checkPos ps n kw = checkPos ps n kw' := by
  induction ps with
  | nil => intro n; simp [checkPos]
  | cons p ps ih =>
    intro n
    have hp := hitBy_congr p kw kw' (h p (List.mem_cons_self ..))
    have ih' := ih (fun q hq => h q (List.mem_cons_of_mem _ hq))
    cases n with
    | zero => simp only [checkPos, hp, ih' 0]
    | succ n => simp only [checkPos, hp, ih' n]

theorem checkKwOnly_congr (S : Sig α) (kw kw' : List α)
    (h : ∀ p ∈ S, (p.name ∈ kw ↔ p.name ∈ kw')) :
    checkKwOnly S kw = checkKwOnly S kw' := by
  simp only [checkKwOnly]
  have key : ∀ p ∈ S, decide (p.name ∈ kw) = decide (p.name ∈ kw') := by
    intro p hp
    by_cases a : p.name ∈ kw
    · simp [a, (h p hp).mp a]
    · have b : p.name ∉ kw' := fun hb => a ((h p hp).mpr hb)
      simp [a, b]
  rw [Bool.eq_iff_iff]
  simp only [List.all_eq_true]
  constructor
  · intro a p hp; rw [← key p hp]; exact a p hp
  · intro a p hp; rw [key p hp]; exact a p hp

theorem mem_posParams {S : Sig α} {p : Param α} (h : p ∈ posParams S) : p ∈ S := by
  simp only [posParams, List.mem_filter] at h
  exact h.1

/-- `binds` is determined by the positional count, by which parameter names occur among the
    keywords, and by whether all keywords are acceptable. -/
theorem binds_congr (S : Sig α) (n : Nat) (kw kw' : List α)
    (hmem : ∀ p ∈ S, (p.name ∈ kw ↔ p.name ∈ kw'))
    (hacc : kwAccepted S kw = kwAccepted S kw') :
    binds S ⟨n, kw⟩ = binds S ⟨n, kw'⟩ := by
  simp only [binds]
  rw [hacc, checkKwOnly_congr S kw kw' hmem,
      checkPos_congr (posParams S) kw kw' (fun p hp => hmem p (mem_posParams hp)) n]

/-- Same set of keyword names ⇒ same verdict (order and repetitions are irrelevant). -/
theorem binds_set_congr (S : Sig α) (n : Nat) (kw kw' : List α)
    (h : ∀ k, k ∈ kw ↔ k ∈ kw') : binds S ⟨n, kw⟩ = binds S ⟨n, kw'⟩ := by
  apply binds_congr S n kw kw' (fun p _ => h p.name)
  simp only [kwAccepted]
  rw [Bool.eq_iff_iff]
  simp only [List.all_eq_true]
  constructor
  · intro a k hk; exact a k ((h k).mpr hk)
  · intro a k hk; exact a k ((h k).mp hk)

theorem kwTarget_false_of_not_name (S : Sig α) (k : α) (h : k ∉ names S) : kwTarget S k = false := by
  simp only [kwTarget]
  rw [Bool.eq_false_iff]
  intro hc
  simp only [List.any_eq_true, Bool.and_eq_true, decide_eq_true_eq] at hc
  obtain ⟨p, hp, _, rfl⟩ := hc
  exact h (List.mem_map.mpr ⟨p, hp, rfl⟩)

/-- Collapsing the names that are not parameter names of `S` (nor in the rest of `K`) to a
    fresh name does not change the verdict. -/
theorem binds_collapse (S : Sig α) (K : List α) (fresh : α) (n : Nat) (kw : List α)
    (hK : ∀ k ∈ names S, k ∈ K) (hf : fresh ∉ K) :
    binds S ⟨n, kw.map (collapse K fresh)⟩ = binds S ⟨n, kw⟩ := by
  apply binds_congr
  · intro p hp
    have hpK : p.name ∈ K := hK _ (List.mem_map.mpr ⟨p, hp, rfl⟩)
    constructor
    · intro h
      obtain ⟨k, hk, e⟩ := List.mem_map.mp h
      unfold collapse at e
      split at e
      · rw [← e]; exact hk
      · rw [← e] at hpK; exact absurd hpK hf
    · intro h
      exact List.mem_map.mpr ⟨p.name, h, by simp [collapse, hpK]⟩
  · simp only [kwAccepted, List.all_map]
    congr 1
    funext k
    simp only [Function.comp]
    by_cases hk : k ∈ K
    · simp [collapse, hk]
    · have hfn : fresh ∉ names S := fun h => hf (hK _ h)
      have hkn : k ∉ names S := fun h => hk (hK _ h)
      simp [collapse, hk, kwTarget_false_of_not_name S fresh hfn, kwTarget_false_of_not_name S k hkn]

/-- Without `**kwargs` every accepted keyword names a keyword-addressable parameter. -/
theorem kw_subset_of_binds (S : Sig α) (c : Call α) (hv : hasVarKw S = false)
    (h : binds S c = true) :
    ∀ k ∈ c.kw, k ∈ (S.filter (fun p => p.kind.isKwAddr)).map (·.name) := by
  intro k hk
  simp only [binds, Bool.and_eq_true, kwAccepted, List.all_eq_true] at h
  have := h.1.1.2 k hk
  rw [hv, Bool.or_false] at this
  simp only [kwTarget, List.any_eq_true, Bool.and_eq_true, decide_eq_true_eq] at this
  obtain ⟨p, hp, ha, rfl⟩ := this
  exact List.mem_map.mpr ⟨p, List.mem_filter.mpr ⟨hp, ha⟩, rfl⟩

/-! ### binding as a conjunction of per-keyword and per-parameter conditions -/

theorem checkPos_split (ps : List (Param α)) (kw : List α) :
    ∀ n, checkPos ps n kw =
      ((ps.take n).all (fun p => !hitBy p kw) && (ps.drop n).all (fun p => p.hasDefault || hitBy p kw)) := by
  induction ps with
  | nil => intro n; simp [checkPos]
  | cons p ps ih =>
    intro n
    cases n with
    | zero =>
      simp only [checkPos, List.take_zero, List.drop_zero, List.all_nil, Bool.true_and, List.all_cons]
      rw [ih 0]; simp
    | succ n =>
      simp only [checkPos, List.take_succ_cons, List.drop_succ_cons, List.all_cons]
      rw [ih n, Bool.and_assoc]

/-- Clause-by-clause reading of `binds`. -/
theorem binds_iff (S : Sig α) (n : Nat) (kw : List α) :
    binds S ⟨n, kw⟩ = true ↔
      (n ≤ (posParams S).length ∨ hasVarPos S = true) ∧
      (∀ k ∈ kw, kwTarget S k = true ∨ hasVarKw S = true) ∧
      (∀ p ∈ (posParams S).take n, hitBy p kw = false) ∧
      (∀ p ∈ (posParams S).drop n, p.hasDefault = true ∨ hitBy p kw = true) ∧
      (∀ p ∈ S, p.kind.isKwOnly = true → p.hasDefault = true ∨ p.name ∈ kw) := by
  simp only [binds, checkPos_split, kwAccepted, checkKwOnly, Bool.and_eq_true, Bool.or_eq_true,
    decide_eq_true_eq, List.all_eq_true, Bool.not_eq_true', Bool.not_eq_eq_eq_not, Bool.not_true]
  constructor
  · rintro ⟨⟨⟨h1, h2⟩, h3, h4⟩, h5⟩
    refine ⟨h1, h2, h3, h4, ?_⟩
    intro p hp hk
    rcases h5 p hp with (h | h) | h
    · rw [hk] at h; exact absurd h (by simp)
    · exact Or.inl h
    · exact Or.inr h
  · rintro ⟨h1, h2, h3, h4, h5⟩
    refine ⟨⟨⟨h1, h2⟩, h3, h4⟩, ?_⟩
    intro p hp
    by_cases hk : p.kind.isKwOnly = true
    · rcases h5 p hp hk with h | h
      · exact Or.inl (Or.inr h)
      · exact Or.inr h
    · exact Or.inl (Or.inl (by simpa using hk))

theorem hitBy_mono (p : Param α) (kw kw' : List α) (hsub : ∀ k ∈ kw, k ∈ kw')
    (h : hitBy p kw = true) : hitBy p kw' = true := by
  simp only [hitBy, Bool.and_eq_true, decide_eq_true_eq] at *
  exact ⟨h.1, hsub _ h.2⟩

theorem hitBy_name (p : Param α) (kw : List α) (h : hitBy p kw = true) :
    p.kind.isPosOrKw = true ∧ p.name ∈ kw := by
  simpa [hitBy] using h

/-- Every name the signature forces is present in an accepted call. -/
theorem req_subset_of_binds (S : Sig α) (n : Nat) (kw : List α) (h : binds S ⟨n, kw⟩ = true) :
    ∀ k ∈ reqNames S n, k ∈ kw := by
  obtain ⟨_, _, _, h4, h5⟩ := (binds_iff S n kw).mp h
  intro k hk
  simp only [reqNames, List.mem_append, List.mem_map, List.mem_filter, Bool.and_eq_true,
    Bool.not_eq_true', Bool.not_eq_eq_eq_not, Bool.not_true] at hk
  rcases hk with ⟨p, ⟨hp, hd⟩, rfl⟩ | ⟨p, ⟨hp, hko, hd⟩, rfl⟩
  · rcases h4 p hp with h | h
    · rw [hd] at h; exact absurd h (by simp)
    · exact (hitBy_name p kw h).2
  · rcases h5 p hp hko with h | h
    · rw [hd] at h; exact absurd h (by simp)
    · exact h

/-- **Shrinking.** An accepted call stays accepted when keywords are dropped, as long as the
    forced names stay. -/
theorem binds_shrink (S : Sig α) (n : Nat) (kw kw' : List α) (h : binds S ⟨n, kw⟩ = true)
    (hsub : ∀ k ∈ kw', k ∈ kw) (hreq : ∀ k ∈ reqNames S n, k ∈ kw') :
    binds S ⟨n, kw'⟩ = true := by
  obtain ⟨h1, h2, h3, h4, h5⟩ := (binds_iff S n kw).mp h
  refine (binds_iff S n kw').mpr ⟨h1, fun k hk => h2 k (hsub k hk), ?_, ?_, ?_⟩
  · intro p hp
    have := h3 p hp
    cases hh : hitBy p kw' with
    | false => rfl
    | true => rw [hitBy_mono p kw' kw hsub hh] at this; exact absurd this (by simp)
  · intro p hp
    cases hd : p.hasDefault with
    | true => exact Or.inl rfl
    | false =>
      right
      rcases h4 p hp with h | h
      · rw [hd] at h; exact absurd h (by simp)
      · have hn := hitBy_name p kw h
        have : p.name ∈ kw' := hreq _ (by
          simp only [reqNames, List.mem_append, List.mem_map, List.mem_filter]
          exact Or.inl ⟨p, ⟨hp, by simp [hd]⟩, rfl⟩)
        simp [hitBy, hn.1, this]
  · intro p hp hko
    cases hd : p.hasDefault with
    | true => exact Or.inl rfl
    | false =>
      right
      exact hreq _ (by
        simp only [reqNames, List.mem_append, List.mem_map, List.mem_filter]
        exact Or.inr ⟨p, ⟨hp, by simp [hko, hd]⟩, rfl⟩)

/-- **Composition.** If the base call and the base call plus each single further keyword are
    accepted, the call with all of them is accepted. -/
theorem binds_compose (S : Sig α) (n : Nat) (b kw : List α) (hb : binds S ⟨n, b⟩ = true)
    (hsub : ∀ k ∈ b, k ∈ kw) (hone : ∀ k ∈ kw, binds S ⟨n, k :: b⟩ = true) :
    binds S ⟨n, kw⟩ = true := by
  obtain ⟨h1, _, _, h4, h5⟩ := (binds_iff S n b).mp hb
  refine (binds_iff S n kw).mpr ⟨h1, ?_, ?_, ?_, ?_⟩
  · intro k hk
    exact ((binds_iff S n (k :: b)).mp (hone k hk)).2.1 k (List.mem_cons_self ..)
  · intro p hp
    cases hh : hitBy p kw with
    | false => rfl
    | true =>
      have hn := hitBy_name p kw hh
      have := ((binds_iff S n (p.name :: b)).mp (hone _ hn.2)).2.2.1 p hp
      simp [hitBy, hn.1] at this
  · intro p hp
    rcases h4 p hp with h | h
    · exact Or.inl h
    · exact Or.inr (hitBy_mono p b kw hsub h)
  · intro p hp hko
    rcases h5 p hp hko with h | h
    · exact Or.inl h
    · exact Or.inr (hsub _ h)

/-! ### fresh names -/

theorem lt_freshNat (l : List Nat) : ∀ x ∈ l, x < freshNat l := by
  induction l with
  | nil => intro x hx; simp at hx
  | cons a as ih =>
    intro x hx
    simp only [freshNat, List.foldr] at *
    rcases List.mem_cons.mp hx with rfl | h
    · omega
    · have := ih x h; omega

theorem freshNat_not_mem (l : List Nat) : freshNat l ∉ l :=
  fun h => Nat.lt_irrefl _ (lt_freshNat l _ h)

theorem names_subset_known_left (O W : Sig α) : ∀ k ∈ names O, k ∈ knownNames O W := by
  intro k hk; simp [knownNames, hk]

theorem names_subset_known_right (O W : Sig α) : ∀ k ∈ names W, k ∈ knownNames O W := by
  intro k hk
  by_cases h : k ∈ names O
  · simp [knownNames, h]
  · simp [knownNames, hk, h]

end J2O.C19
