/-
Algebra of layout operators on the tensor model: inverse transposes cancel; transposes commute
with broadcasting pointwise operators and with casts; size-1 constants are fixed by transposes.
-/
import J2O.Model.Tensor

namespace J2O
open Tensor

theorem validPerm_iff (p : List Nat) :
    validPerm p = true ↔
      (∀ x ∈ p, x < p.length) ∧ (∀ m, m < p.length → m ∈ p) ∧ p.Nodup := by
  simp [validPerm, List.all_eq_true, and_assoc]

theorem permFn_lt {p : List Nat} (hp : validPerm p = true) {k : Nat} (hk : k < p.length) :
    permFn p k < p.length := by
  obtain ⟨hb, _, _⟩ := (validPerm_iff p).1 hp
  simp only [permFn, hk, dite_true]
  exact hb _ (List.getElem_mem hk)

theorem permFn_ge {p : List Nat} {k : Nat} (hk : ¬ k < p.length) : permFn p k = k := by
  simp [permFn, hk]

theorem invFn_ge {p : List Nat} {k : Nat} (hk : ¬ k < p.length) : invFn p k = k := by
  simp [invFn, hk]

theorem invFn_lt {p : List Nat} (hp : validPerm p = true) {m : Nat} (hm : m < p.length) :
    invFn p m < p.length := by
  obtain ⟨_, hs, _⟩ := (validPerm_iff p).1 hp
  simp only [invFn, hm, if_true]
  exact List.idxOf_lt_length_of_mem (hs m hm)

theorem permFn_invFn {p : List Nat} (hp : validPerm p = true) (m : Nat) :
    permFn p (invFn p m) = m := by
  by_cases hm : m < p.length
  · obtain ⟨_, hs, _⟩ := (validPerm_iff p).1 hp
    have hlt := invFn_lt hp hm
    have hidx : p.idxOf m < p.length := List.idxOf_lt_length_of_mem (hs m hm)
    simp only [permFn, invFn, hm, if_true, hidx, dite_true]
    exact List.getElem_idxOf hidx
  · simp [invFn, permFn, hm]

theorem invFn_permFn {p : List Nat} (hp : validPerm p = true) (k : Nat) :
    invFn p (permFn p k) = k := by
  by_cases hk : k < p.length
  · obtain ⟨_, _, hnd⟩ := (validPerm_iff p).1 hp
    have hlt := permFn_lt hp hk
    simp only [permFn, hk, dite_true] at hlt ⊢
    simp only [invFn, hlt, if_true]
    exact hnd.idxOf_getElem k hk
  · simp [invFn, permFn, hk]

theorem isInversePerm_spec {p1 p2 : List Nat} (h : isInversePerm p1 p2 = true) :
    p1.length = p2.length ∧ ∀ k, k < p2.length → p1.getD (p2.getD k 0) p1.length = k := by
  simp only [isInversePerm, Bool.and_eq_true, beq_iff_eq] at h
  obtain ⟨hl, hm⟩ := h
  refine ⟨hl, fun k hk => ?_⟩
  have := congrArg (fun l => l.getD k 0) hm
  simp only [List.getD_eq_getElem?_getD, List.getElem?_map, List.getElem?_range hk] at this
  rw [List.getElem?_eq_getElem hk] at this
  simp only [Option.map_some, Option.getD_some] at this
  simpa [List.getD_eq_getElem?_getD, List.getElem?_eq_getElem hk] using this

theorem permFn_eq_getD {p : List Nat} {k : Nat} (hk : k < p.length) (d : Nat) :
    permFn p k = p.getD k d := by
  simp [permFn, hk, List.getD_eq_getElem?_getD]

/-- Under the code's inverse test, for valid permutations, `π₁ ∘ π₂ = id` as functions. -/
theorem permFn_comp_of_inverse {p1 p2 : List Nat} (hp1 : validPerm p1 = true)
    (hp2 : validPerm p2 = true) (h : isInversePerm p1 p2 = true) (k : Nat) :
    permFn p1 (permFn p2 k) = k := by
  obtain ⟨hl, hk⟩ := isInversePerm_spec h
  by_cases hlt : k < p2.length
  · have h2 := permFn_lt hp2 hlt
    have h2' : permFn p2 k < p1.length := by omega
    rw [permFn_eq_getD h2' p1.length, permFn_eq_getD hlt 0]
    exact hk k hlt
  · have hge : ¬ k < p1.length := by omega
    rw [permFn_ge hlt, permFn_ge hge]

theorem invFn_comp_of_inverse {p1 p2 : List Nat} (hp1 : validPerm p1 = true)
    (hp2 : validPerm p2 = true) (h : isInversePerm p1 p2 = true) (m : Nat) :
    invFn p2 (invFn p1 m) = m := by
  -- inv₁ m = π₂ m because π₁ (π₂ m) = m and π₁ is injective; then inv₂ (π₂ m) = m
  have h1 : invFn p1 m = permFn p2 m := by
    have := permFn_comp_of_inverse hp1 hp2 h m
    have := congrArg (invFn p1) this
    rw [invFn_permFn hp1] at this
    exact this.symm
  rw [h1, invFn_permFn hp2]

/-- **Inverse transposes cancel** (all ranks, all tensors). -/
theorem transpose_cancel {α} {p1 p2 : List Nat} (hp1 : validPerm p1 = true)
    (hp2 : validPerm p2 = true) (h : isInversePerm p1 p2 = true) (t : Tensor α) :
    transpose p2 (transpose p1 t) = t := by
  apply Tensor.ext'
  · rfl
  · rfl
  · funext k; simp only [transpose]; rw [permFn_comp_of_inverse hp1 hp2 h]
  · funext i; simp only [transpose]
    congr 1; funext m; rw [invFn_comp_of_inverse hp1 hp2 h]

/-- A size-1 constant is unchanged by any transpose. -/
theorem transpose_scalarLike {α} (p : List Nat) (c : Tensor α) (hc : c.ScalarLike) :
    transpose p c = c := by
  obtain ⟨hd, hg⟩ := hc
  apply Tensor.ext'
  · rfl
  · rfl
  · funext k; simp only [transpose]; rw [hd, hd]
  · funext i; simp only [transpose]; exact hg _ _

/-- **Casts commute with transposes.** -/
theorem castT_transpose {α} (c : Nat → Nat → α → α) (to : Nat) (p : List Nat) (t : Tensor α) :
    castT c to (transpose p t) = transpose p (castT c to t) := rfl

/-- Operand admissible for pulling a transpose through a pointwise operator:
    full rank `n`, or a size-1 constant of rank ≤ n. -/
def PullOK {α} (n : Nat) (t : Tensor α) : Prop := t.rank = n ∨ (t.ScalarLike ∧ t.rank ≤ n)

theorem maxRank_foldl_le {α} (ts : List (Tensor α)) (n m : Nat)
    (h : ∀ t ∈ ts, t.rank ≤ n) (hm : m ≤ n) : ts.foldl (fun m t => max m t.rank) m ≤ n := by
  induction ts generalizing m with
  | nil => simpa
  | cons t ts ih =>
    simp only [List.foldl_cons]
    apply ih _ (fun t' ht' => h t' (List.mem_cons_of_mem _ ht'))
    have := h t (List.mem_cons_self ..)
    omega

theorem le_maxRank_foldl {α} (ts : List (Tensor α)) (m : Nat) :
    m ≤ ts.foldl (fun m t => max m t.rank) m := by
  induction ts generalizing m with
  | nil => simp
  | cons t ts ih => simp only [List.foldl_cons]; exact Nat.le_trans (Nat.le_max_left _ _) (ih _)

theorem mem_le_maxRank_foldl {α} (ts : List (Tensor α)) (m : Nat) (t : Tensor α) (ht : t ∈ ts) :
    t.rank ≤ ts.foldl (fun m t => max m t.rank) m := by
  induction ts generalizing m with
  | nil => cases ht
  | cons a ts ih =>
    simp only [List.foldl_cons]
    rcases List.mem_cons.1 ht with rfl | h
    · exact Nat.le_trans (Nat.le_max_right _ _) (le_maxRank_foldl ts _)
    · exact ih _ h

theorem maxRank_eq {α} (ts : List (Tensor α)) (n : Nat) (h : ∀ t ∈ ts, PullOK n t)
    (hex : ∃ t ∈ ts, t.rank = n) : maxRank ts = n := by
  apply Nat.le_antisymm
  · apply maxRank_foldl_le ts n 0 _ (Nat.zero_le _)
    intro t ht
    rcases h t ht with h | ⟨_, h⟩ <;> omega
  · obtain ⟨t, ht, hr⟩ := hex
    rw [← hr]; exact mem_le_maxRank_foldl ts 0 t ht

theorem maxRank_map_transpose {α} (p : List Nat) (ts : List (Tensor α)) :
    maxRank (ts.map (transpose p)) = maxRank ts := by
  unfold maxRank
  generalize 0 = m
  induction ts generalizing m with
  | nil => rfl
  | cons t ts ih => simp only [List.map_cons, List.foldl_cons]; exact ih _

theorem bstep_transpose {α} (p : List Nat) (n : Nat) (t : Tensor α) (h : PullOK n t)
    (k d : Nat) : bstep n k d (transpose p t) = bstep n (permFn p k) d t := by
  rcases h with hr | ⟨⟨hd, _⟩, _⟩
  · simp [bstep, transpose, hr]
  · simp [bstep, transpose, hd]

theorem bdim_transpose {α} (p : List Nat) (n : Nat) (ts : List (Tensor α))
    (h : ∀ t ∈ ts, PullOK n t) (k : Nat) :
    bdim (ts.map (transpose p)) n k = bdim ts n (permFn p k) := by
  unfold bdim
  generalize 1 = d
  induction ts generalizing d with
  | nil => rfl
  | cons t ts ih =>
    simp only [List.map_cons, List.foldl_cons]
    rw [bstep_transpose p n t (h t (List.mem_cons_self ..))]
    exact ih (fun t' ht' => h t' (List.mem_cons_of_mem _ ht')) _

/-- **Transposes commute with broadcasting pointwise operators**: if every operand has the rank
    of the permutation or is a size-1 constant (and at least one has full rank), then applying
    the operator to the transposed operands equals transposing the result. -/
theorem pw_transpose {α} (f : List α → α) (p : List Nat) (hp : validPerm p = true)
    (ts : List (Tensor α)) (n : Nat) (h : ∀ t ∈ ts, PullOK n t) (hex : ∃ t ∈ ts, t.rank = n) :
    pw f (ts.map (transpose p)) = transpose p (pw f ts) := by
  have hr : maxRank ts = n := maxRank_eq ts n h hex
  have hr' : maxRank (ts.map (transpose p)) = n := by rw [maxRank_map_transpose, hr]
  apply Tensor.ext'
  · cases ts <;> rfl
  · simp only [pw, transpose, hr, hr']
  · funext k
    simp only [pw, transpose, hr, hr']
    exact bdim_transpose p n ts h k
  · funext i
    simp only [pw, transpose, hr, hr', List.map_map]
    congr 1
    apply List.map_congr_left
    intro t ht
    show t.get (fun m => bidx (transpose p t) n i (invFn p m))
        = t.get (bidx t n (fun m => i (invFn p m)))
    have : (fun m => bidx (transpose p t) n i (invFn p m))
        = bidx t n (fun m => i (invFn p m)) := by
      funext m
      rcases h t ht with hrk | ⟨⟨hd, _⟩, _⟩
      · simp only [bidx, transpose, hrk, Nat.sub_self, Nat.add_zero]
        rw [permFn_invFn hp]
      · simp [bidx, transpose, hd]
    rw [this]

/-- Transposing by a valid permutation preserves `PullOK`. -/
theorem pullOK_transpose {α} (p : List Nat) (n : Nat) (t : Tensor α) (h : PullOK n t) :
    PullOK n (transpose p t) := by
  rcases h with h | ⟨hs, hr⟩
  · exact Or.inl h
  · right; rw [transpose_scalarLike p t hs]; exact ⟨hs, hr⟩

end J2O

namespace J2O

theorem bstep_self {α} (t : Tensor α) (j : Nat) : bstep t.rank j 1 t = t.dim j := by
  simp only [bstep, Nat.sub_self, Nat.not_lt_zero, if_false, Nat.sub_zero]
  split <;> simp_all

theorem pw_unary_spec {α} (g : List α → α) (t : Tensor α) :
    (pw g [t]).rank = t.rank ∧ (pw g [t]).dim = t.dim ∧
      ∀ i, (pw g [t]).get i = g [t.get (bidx t t.rank i)] := by
  have hr : maxRank [t] = t.rank := by simp [maxRank]
  refine ⟨by simp [pw, hr], ?_, ?_⟩
  · funext j; simp [pw, hr, bdim, bstep_self]
  · intro i; simp [pw, hr]

theorem bidx_idem {α} (t : Tensor α) (i : Nat → Nat) :
    bidx t t.rank (bidx t t.rank i) = bidx t t.rank i := by
  funext k
  simp only [bidx, Nat.sub_self, Nat.add_zero]
  split <;> simp_all

/-- binary pointwise operator on two tensors of the same rank and extents -/
theorem pw_pair_spec {α} (f : List α → α) (a b : Tensor α) (hrk : b.rank = a.rank)
    (hd : b.dim = a.dim) :
    (pw f [a, b]).rank = a.rank ∧ (pw f [a, b]).dim = a.dim ∧
      ∀ i, (pw f [a, b]).get i = f [a.get (bidx a a.rank i), b.get (bidx a a.rank i)] := by
  have hr : maxRank [a, b] = a.rank := by simp [maxRank, hrk]
  refine ⟨by simp [pw, hr], ?_, ?_⟩
  · funext j
    simp only [pw, hr, bdim, List.foldl_cons, List.foldl_nil]
    rw [bstep_self]
    simp only [bstep, hrk, Nat.sub_self, Nat.not_lt_zero, if_false, Nat.sub_zero, hd]
    split <;> simp_all
  · intro i
    have e : bidx b a.rank i = bidx a a.rank i := by
      funext k; simp only [bidx, hd, hrk]
    simp [pw, hr, e]

/-- A binary pointwise operator applied to `t` and a unary pointwise image of `t` is the unary
    pointwise operator with the composed scalar function (e.g. `x * Sigmoid(x) = Swish(x)` follows
    from the scalar identity). -/
theorem pw_self_compose {α} (f g h : List α → α) (hfg : ∀ v, f [v, g [v]] = h [v])
    (t : Tensor α) : pw f [t, pw g [t]] = pw h [t] := by
  obtain ⟨gr, gd, gg⟩ := pw_unary_spec g t
  obtain ⟨hr, hd, hg⟩ := pw_unary_spec h t
  obtain ⟨pr, pd, pg⟩ := pw_pair_spec f t (pw g [t]) gr gd
  apply Tensor.ext'
  · rfl
  · rw [pr, hr]
  · rw [pd, hd]
  · funext i
    rw [pg, hg, gg, bidx_idem]
    exact hfg _

theorem pw_compose_self {α} (f g h : List α → α) (hfg : ∀ v, f [g [v], v] = h [v])
    (t : Tensor α) : pw f [pw g [t], t] = pw h [t] := by
  obtain ⟨gr, gd, gg⟩ := pw_unary_spec g t
  obtain ⟨hr, hd, hg⟩ := pw_unary_spec h t
  obtain ⟨pr, pd, pg⟩ := pw_pair_spec f (pw g [t]) t gr.symm gd.symm
  apply Tensor.ext'
  · simp [pw]
  · rw [pr, gr, hr]
  · rw [pd, gd, hd]
  · funext i
    rw [pg, hg, gg, gr]
    have e : bidx (pw g [t]) t.rank i = bidx t t.rank i := by
      funext k; simp only [bidx, gd, gr]
    rw [e, bidx_idem]
    exact hfg _

end J2O

namespace J2O

/-- rank-0 size-1 constants -/
def Scalar0 {α} (c : Tensor α) : Prop := c.ScalarLike ∧ c.rank = 0

theorem foldl_max_scalars {α} (cs : List (Tensor α)) (h : ∀ c ∈ cs, Scalar0 c) (m : Nat) :
    cs.foldl (fun m t => max m t.rank) m = m := by
  induction cs generalizing m with
  | nil => rfl
  | cons c cs ih =>
    simp only [List.foldl_cons]
    rw [(h c (List.mem_cons_self ..)).2, Nat.max_zero]
    exact ih (fun c' hc' => h c' (List.mem_cons_of_mem _ hc')) m

theorem foldl_bstep_scalars {α} (cs : List (Tensor α)) (h : ∀ c ∈ cs, Scalar0 c) (r j d : Nat) :
    cs.foldl (bstep r j) d = d := by
  induction cs generalizing d with
  | nil => rfl
  | cons c cs ih =>
    simp only [List.foldl_cons]
    have hc := h c (List.mem_cons_self ..)
    have : bstep r j d c = d := by
      simp only [bstep, hc.1.1]
      split <;> simp
    rw [this]
    exact ih (fun c' hc' => h c' (List.mem_cons_of_mem _ hc')) d

/-- a pointwise operator whose operands are one tensor `a` and rank-0 constants has the rank and
    extents of `a` -/
theorem pw_scalars_spec {α} (f : List α → α) (pre post : List (Tensor α)) (a : Tensor α)
    (hpre : ∀ c ∈ pre, Scalar0 c) (hpost : ∀ c ∈ post, Scalar0 c) :
    (pw f (pre ++ [a] ++ post)).rank = a.rank ∧ (pw f (pre ++ [a] ++ post)).dim = a.dim := by
  have hr : maxRank (pre ++ [a] ++ post) = a.rank := by
    simp only [maxRank, List.foldl_append, List.foldl_cons, List.foldl_nil]
    rw [foldl_max_scalars pre hpre, foldl_max_scalars post hpost]
    simp
  refine ⟨by simp only [pw, hr], ?_⟩
  funext j
  simp only [pw, hr, bdim, List.foldl_append, List.foldl_cons, List.foldl_nil]
  rw [foldl_bstep_scalars pre hpre, foldl_bstep_scalars post hpost, bstep_self]

end J2O
