/-
C18 — the square-root-free complex tolerance test of the model (`closeCplx` / `ModulusLe`) IS
numpy's `|x − y| ≤ atol + rtol·|y|` with the complex modulus, over the real numbers.
-/
import J2O.Lemmas.C18
import Mathlib.Analysis.Real.Sqrt
import Mathlib.Tactic.Linarith
import Mathlib.Tactic.Ring
import Mathlib.Tactic.Positivity
set_option linter.unusedVariables false

namespace J2O.C18

/-- √D ≤ A + R·√N  ⇔  L ≤ 0 ∨ L² ≤ (2AR)²·N  with L = D − A² − R²N  (A, R, N ≥ 0). -/
theorem sqrt_le_iff_sqfree (A R D N : ℝ) (hA : 0 ≤ A) (hR : 0 ≤ R) (hN : 0 ≤ N) :
    Real.sqrt D ≤ A + R * Real.sqrt N ↔
      (D - A * A - R * R * N ≤ 0 ∨
        (D - A * A - R * R * N) * (D - A * A - R * R * N) ≤ (2 * A * R) * (2 * A * R) * N) := by
  have hn : 0 ≤ Real.sqrt N := Real.sqrt_nonneg N
  have hnn : Real.sqrt N * Real.sqrt N = N := Real.mul_self_sqrt hN
  have hrhs : 0 ≤ A + R * Real.sqrt N := by positivity
  have h2 : 0 ≤ 2 * A * R * Real.sqrt N := by positivity
  rw [Real.sqrt_le_left hrhs]
  have hexp : (A + R * Real.sqrt N) ^ 2 = A * A + 2 * A * R * Real.sqrt N + R * R * N := by
    have : (A + R * Real.sqrt N) ^ 2
        = A * A + 2 * A * R * Real.sqrt N + R * R * (Real.sqrt N * Real.sqrt N) := by ring
    rw [this, hnn]
  rw [hexp]
  have hsq : (2 * A * R * Real.sqrt N) * (2 * A * R * Real.sqrt N) = (2 * A * R) * (2 * A * R) * N := by
    have : (2 * A * R * Real.sqrt N) * (2 * A * R * Real.sqrt N)
        = (2 * A * R) * (2 * A * R) * (Real.sqrt N * Real.sqrt N) := by ring
    rw [this, hnn]
  constructor
  · intro h
    by_cases hL : D - A * A - R * R * N ≤ 0
    · exact Or.inl hL
    · right
      have hL' : 0 ≤ D - A * A - R * R * N := by linarith
      have hle : D - A * A - R * R * N ≤ 2 * A * R * Real.sqrt N := by linarith
      rw [← hsq]
      exact mul_self_le_mul_self hL' hle
  · rintro (h | h)
    · linarith
    · by_cases hL : D - A * A - R * R * N ≤ 0
      · linarith
      · have hL' : 0 ≤ D - A * A - R * R * N := by linarith
        rw [← hsq] at h
        have := (mul_self_le_mul_self_iff hL' h2).mpr h
        linarith

/-- **`ModulusLe` is the modulus test.** For rational components and tolerances ≥ 0:
    √((xr−yr)² + (xi−yi)²) ≤ atol + rtol·√(yr² + yi²)  (in ℝ)  ⇔  the model's test. -/
theorem modulusLe_iff_real (rtol atol xr xi yr yi : Rat) (hr : 0 ≤ rtol) (ha : 0 ≤ atol) :
    ModulusLe rtol atol xr xi yr yi ↔
      Real.sqrt (((xr - yr) * (xr - yr) + (xi - yi) * (xi - yi) : Rat) : ℝ)
        ≤ (atol : ℝ) + (rtol : ℝ) * Real.sqrt ((yr * yr + yi * yi : Rat) : ℝ) := by
  have hN : (0 : ℝ) ≤ ((yr * yr + yi * yi : Rat) : ℝ) := by
    have : (0 : Rat) ≤ yr * yr + yi * yi := by
      have := mul_self_nonneg yr; have := mul_self_nonneg yi; linarith
    exact_mod_cast this
  rw [sqrt_le_iff_sqfree _ _ _ _ (by exact_mod_cast ha) (by exact_mod_cast hr) hN]
  unfold ModulusLe sq
  constructor
  · rintro (h | h)
    · left; exact_mod_cast h
    · right; exact_mod_cast h
  · rintro (h | h)
    · left; exact_mod_cast h
    · right; exact_mod_cast h

end J2O.C18
