/-
C01 — helper lemmas (the property theorems are in `J2O.Props.C01`).
-/
import Mathlib.Algebra.Order.Floor.Ring
import Mathlib.Data.Rat.Floor
import Mathlib.Tactic.Linarith
import Mathlib.Tactic.Ring
import Mathlib.Tactic.NormNum
import Mathlib.Data.List.Basic
import J2O.Model.C01
set_option linter.unusedSimpArgs false
set_option linter.unusedVariables false
set_option linter.unreachableTactic false
set_option linter.unusedTactic false
set_option linter.unnecessarySeqFocus false

namespace J2O.C01

/-! ## (a) composition -/

theorem runNodes_append {O V : Type} (osem : O → List V → List V) (g : Env V)
    (a b : List (GNode O)) :
    runNodes osem g (a ++ b) =
      match runNodes osem g a with
      | none => none
      | some g' => runNodes osem g' b := by
  induction a generalizing g with
  | nil => simp [runNodes]
  | cons n ns ih =>
    simp only [List.cons_append, runNodes]
    cases runNode osem g n with
    | none => rfl
    | some g1 => exact ih g1

theorem bindVars_frame {V : Type} (g : Env V) (xs : List Nat) (vs : List V) (n : Nat)
    (h : n ∉ xs) : bindVars g xs vs n = g n := by
  induction xs generalizing g vs with
  | nil => simp [bindVars]
  | cons x xs ih =>
    cases vs with
    | nil => simp [bindVars]
    | cons v vs =>
      simp only [bindVars]
      rw [ih _ _ (fun hm => h (List.mem_cons_of_mem _ hm))]
      simp only [Env.set]
      have : n ≠ x := fun e => h (e ▸ List.mem_cons_self)
      simp [this]

theorem runNode_frame {O V : Type} (osem : O → List V → List V) (g g' : Env V) (nd : GNode O)
    (h : runNode osem g nd = some g') (n : Nat) (hn : n ∉ nd.outs) : g' n = g n := by
  unfold runNode at h
  split at h
  · exact absurd h (by simp)
  · dsimp only at h
    split at h
    · simp only [Option.some.injEq] at h
      subst h
      exact bindVars_frame _ _ _ _ hn
    · exact absurd h (by simp)

/-- Running a node list changes only the names it defines. -/
theorem runNodes_frame {O V : Type} (osem : O → List V → List V) (nodes : List (GNode O))
    (g g' : Env V) (h : runNodes osem g nodes = some g') (n : Nat) (hn : n ∉ outNames nodes) :
    g' n = g n := by
  induction nodes generalizing g with
  | nil => simp only [runNodes, Option.some.injEq] at h; subst h; rfl
  | cons nd ns ih =>
    simp only [runNodes] at h
    simp only [outNames, List.mem_append, not_or] at hn
    cases h1 : runNode osem g nd with
    | none => rw [h1] at h; exact absurd h (by simp)
    | some g1 =>
      rw [h1] at h
      rw [ih g1 h hn.2, runNode_frame osem g g1 nd h1 n hn.1]

theorem outNames_append {O : Type} (a b : List (GNode O)) :
    outNames (a ++ b) = outNames a ++ outNames b := by
  induction a with
  | nil => rfl
  | cons n ns ih => simp [outNames, ih, List.append_assoc]

/-- `bindOuts` from an arbitrary environment = the freshly bound variables, else the old ones. -/
theorem bindOuts_eq {V : Type} (env : Env V) (outs : List (Option Nat)) (vals : List V) (x : Nat) :
    bindOuts env outs vals x =
      match bindOuts Env.empty outs vals x with
      | some a => some a
      | none => env x := by
  induction outs generalizing env vals with
  | nil => simp [bindOuts, Env.empty]
  | cons o os ih =>
    cases vals with
    | nil => cases o <;> simp [bindOuts, Env.empty]
    | cons v vs =>
      cases o with
      | none => simp only [bindOuts]; exact ih env vs
      | some y =>
        simp only [bindOuts]
        rw [ih (env.set y v) vs, ih (Env.empty.set y v) vs]
        cases bindOuts Env.empty os vs x with
        | some a => rfl
        | none =>
          simp only [Env.set, Env.empty]
          split <;> rfl

theorem bindOuts_none_of_not_mem {V : Type} (outs : List (Option Nat)) (vals : List V) (x : Nat)
    (h : some x ∉ outs) : bindOuts Env.empty outs vals x = none := by
  induction outs generalizing vals with
  | nil => simp [bindOuts, Env.empty]
  | cons o os ih =>
    have hos : some x ∉ os := fun hm => h (List.mem_cons_of_mem _ hm)
    cases vals with
    | nil => cases o <;> simp [bindOuts, Env.empty]
    | cons v vs =>
      cases o with
      | none => simp only [bindOuts]; exact ih vs hos
      | some y =>
        simp only [bindOuts]
        rw [bindOuts_eq, ih vs hos]
        have : x ≠ y := fun e => h (e ▸ List.mem_cons_self)
        simp [Env.set, Env.empty, this]

theorem bindOuts_some_of_mem {V : Type} (outs : List (Option Nat)) (vals : List V) (x : Nat)
    (hl : vals.length = outs.length) (h : some x ∈ outs) :
    ∃ a, bindOuts Env.empty outs vals x = some a := by
  induction outs generalizing vals with
  | nil => exact absurd h (by simp)
  | cons o os ih =>
    cases vals with
    | nil => simp at hl
    | cons v vs =>
      have hl' : vs.length = os.length := by simpa using hl
      cases o with
      | none =>
        simp only [bindOuts]
        have : some x ∈ os := by simpa using h
        exact ih vs hl' this
      | some y =>
        simp only [bindOuts]
        rw [bindOuts_eq]
        by_cases hm : some x ∈ os
        · obtain ⟨a, ha⟩ := ih vs hl' hm
          exact ⟨a, by rw [ha]⟩
        · rw [bindOuts_none_of_not_mem os vs x hm]
          have hxy : x = y := by
            rcases List.mem_cons.mp h with h1 | h1
            · exact (Option.some.inj h1)
            · exact absurd h1 hm
          subst hxy
          exact ⟨v, by simp [Env.set]⟩

theorem atomsBound_of_agree {V : Type} (jenv g : Env V) (m : Nat → Option Nat)
    (hag : Agree jenv g m) (as : List (Atom V)) (vals : List V)
    (h : evalAtoms jenv as = some vals) : AtomsBound g m as vals := by
  induction as generalizing vals with
  | nil =>
    simp only [evalAtoms, Option.some.injEq] at h
    subst h
    trivial
  | cons a as ih =>
    simp only [evalAtoms] at h
    cases ha : evalAtom jenv a with
    | none => rw [ha] at h; exact absurd h (by simp)
    | some v =>
      cases hr : evalAtoms jenv as with
      | none => rw [ha, hr] at h; exact absurd h (by simp)
      | some vs =>
        rw [ha, hr] at h
        simp only [Option.some.injEq] at h
        subst h
        cases a with
        | var x => exact ⟨hag x v ha, ih vs hr⟩
        | lit c =>
          simp only [evalAtom, Option.some.injEq] at ha
          exact ⟨ha, ih vs hr⟩

/-- One dispatcher step preserves agreement (from the per-equation hypothesis). -/
theorem eqn_step {P O V : Type} (sem : P → List V → List V) (osem : O → List V → List V)
    {e : Eqn P V} {m m1 : Nat → Option Nat} {new : List (GNode O)}
    (hl : EqnLowered sem osem e m new m1) (jenv g : Env V) (hag : Agree jenv g m)
    (hfresh : ∀ n ∈ outNames new, g n = none)
    (jenv1 : Env V) (hj : evalEqn sem jenv e = some jenv1) :
    ∃ g1, runNodes osem g new = some g1 ∧ Agree jenv1 g1 m1 ∧ Extends g g1 := by
  unfold evalEqn at hj
  cases hv : evalAtoms jenv e.ins with
  | none => rw [hv] at hj; exact absurd hj (by simp)
  | some vals =>
    rw [hv] at hj
    dsimp only at hj
    split at hj
    · next hlen =>
      simp only [Option.some.injEq] at hj
      subst hj
      obtain ⟨g1, hrun, hout⟩ := hl.computes g vals (atomsBound_of_agree jenv g m hag e.ins vals hv) hfresh
      have hext : Extends g g1 := by
        intro n a hn
        have : n ∉ outNames new := fun hm => by rw [hfresh n hm] at hn; exact absurd hn (by simp)
        rw [runNodes_frame osem new g g1 hrun n this]; exact hn
      refine ⟨g1, hrun, ?_, hext⟩
      intro x a hx
      rw [bindOuts_eq] at hx
      cases hb : bindOuts Env.empty e.outs (sem e.prim vals) x with
      | some b =>
        rw [hb] at hx
        simp only [Option.some.injEq] at hx
        subst hx
        exact hout x b hb
      | none =>
        rw [hb] at hx
        have hnm : some x ∉ e.outs := by
          intro hm
          obtain ⟨b, hb'⟩ := bindOuts_some_of_mem e.outs (sem e.prim vals) x hlen hm
          rw [hb] at hb'; exact absurd hb' (by simp)
        obtain ⟨n, hmn, hgn⟩ := hag x a hx
        exact ⟨n, by rw [hl.keeps x hnm]; exact hmn, hext n a hgn⟩
    · exact absurd hj (by simp)


/-! ## `bind_returned_lowering_values` -/
theorem mem_zip_idx {α β : Type} (l : List α) (v : List β) (hl : v.length = l.length) (p : α × β)
    (hp : p ∈ l.zip v) : ∃ k, ∃ (hk : k < v.length), p = (l[k]'(hl ▸ hk), v[k]) := by
  obtain ⟨k, hk, he⟩ := List.mem_iff_getElem.mp hp
  have hk' : k < v.length := by simp [List.length_zip, hl] at hk; omega
  exact ⟨k, hk', by rw [← he, List.getElem_zip]⟩

theorem bindReturned_spec {N : Type} (outs : List OutVar) (want : Nat → N)
    (vals : List N)
    (hcase : (vals.length = (nonDropIdx outs).length ∧
                ∀ k (hk : k < vals.length), vals[k] = want ((nonDropIdx outs).getD k 0)) ∨
             (vals.length ≠ (nonDropIdx outs).length ∧ vals.length = (unboundIdx outs).length ∧
                ∀ k (hk : k < vals.length), vals[k] = want ((unboundIdx outs).getD k 0))) :
    match bindReturned outs (some vals) with
    | .error => False
    | .unchanged => unboundIdx outs = []
    | .bound bs =>
        (∀ p ∈ bs, p.2 = want p.1 ∧ p.1 ∈ unboundIdx outs) ∧
        (∀ i ∈ unboundIdx outs, ∃ p ∈ bs, p.1 = i) := by
  by_cases hemp : (unboundIdx outs).isEmpty = true
  · have : bindReturned outs (some vals) = .unchanged := by simp only [bindReturned, hemp, if_true]
    rw [this]
    simpa using hemp
  · by_cases hlen : vals.length = (nonDropIdx outs).length
    · have : bindReturned outs (some vals) = .bound (((nonDropIdx outs).zip vals).filter
          fun p => (outs.getD p.1 ⟨true, false⟩).needs) := by
        simp only [bindReturned, hemp, hlen, if_true, if_false, Bool.false_eq_true]
      rw [this]
      -- one value per non-drop outvar
      rcases hcase with ⟨_, hw⟩ | ⟨hcontra, _⟩
      · refine ⟨?_, ?_⟩
        · intro p hp
          simp only [List.mem_filter] at hp
          obtain ⟨k, hk, he⟩ := mem_zip_idx _ _ hlen p hp.1
          subst he
          refine ⟨?_, ?_⟩
          · simp only []
            rw [hw k hk]; simp [List.getD_eq_getElem?_getD, List.getElem?_eq_getElem (hlen ▸ hk)]
          · simp only [unboundIdx, List.mem_filter]
            exact ⟨List.getElem_mem _, hp.2⟩
        · intro i hi
          simp only [unboundIdx, List.mem_filter] at hi
          obtain ⟨k, hk, he⟩ := List.mem_iff_getElem.mp hi.1
          have hk' : k < vals.length := hlen ▸ hk
          refine ⟨((nonDropIdx outs)[k], vals[k]), ?_, he⟩
          simp only [List.mem_filter]
          refine ⟨?_, by rw [he]; exact hi.2⟩
          apply List.mem_iff_getElem.mpr
          exact ⟨k, by simp [List.length_zip]; omega, by simp [List.getElem_zip]⟩
      · exact absurd hlen hcontra
    · by_cases hlen2 : vals.length = (unboundIdx outs).length
      · have : bindReturned outs (some vals) = .bound ((unboundIdx outs).zip vals) := by
          simp only [bindReturned, hemp, if_false, Bool.false_eq_true]
          rw [if_neg hlen, if_pos hlen2]
        rw [this]
        rcases hcase with ⟨hc, _⟩ | ⟨_, _, hw⟩
        · exact absurd hc hlen
        · refine ⟨?_, ?_⟩
          · intro p hp
            obtain ⟨k, hk, he⟩ := mem_zip_idx _ _ hlen2 p hp
            subst he
            refine ⟨?_, List.getElem_mem _⟩
            simp only []
            rw [hw k hk]; simp [List.getD_eq_getElem?_getD, List.getElem?_eq_getElem (hlen2 ▸ hk)]
          · intro i hi
            obtain ⟨k, hk, he⟩ := List.mem_iff_getElem.mp hi
            have hk' : k < vals.length := hlen2 ▸ hk
            refine ⟨((unboundIdx outs)[k], vals[k]), ?_, he⟩
            apply List.mem_iff_getElem.mpr
            exact ⟨k, by simp [List.length_zip]; omega, by simp [List.getElem_zip]⟩
      · rcases hcase with ⟨hc, _⟩ | ⟨_, hc, _⟩
        · exact absurd hc hlen
        · exact absurd hc hlen2

/-! ## (b) no-overflow: fixed-width evaluation = ideal evaluation -/
theorem wrap_of_inRange (t : DT) (x : Int) (h : t.inRange x = true) : wrap t x = x := by
  unfold wrap
  split
  · next ht =>
    unfold DT.inRange DT.lo DT.hi at h
    cases t <;> simp [DT.isInt] at ht <;> simp [DT.signed, DT.bits] at h ⊢ <;> omega
  · rfl

theorem finish_fixed_eq_ideal (t : DT) (p : Val × Bool) (h : okVal t (finish .ideal t p) = true) :
    finish .fixed t p = finish .ideal t p := by
  obtain ⟨v, w⟩ := p
  cases v with
  | i x =>
    cases w with
    | false => rfl
    | true =>
      simp only [finish, nrm, okVal] at h ⊢
      split at h
      · rw [wrap_of_inRange t x h]
      · next hn => unfold wrap; simp [hn]
  | b _ => cases w <;> rfl
  | q _ => cases w <;> rfl
  | err => cases w <;> rfl

theorem evalNodes_fixed_eq_ideal (nodes : List Node) (env : List Val)
    (h : noOverflow env nodes = true) : evalNodes .fixed env nodes = evalNodes .ideal env nodes := by
  induction nodes generalizing env with
  | nil => rfl
  | cons n ns ih =>
    simp only [noOverflow, Bool.and_eq_true] at h
    have h1 : evalNode .fixed env n = evalNode .ideal env n := by
      unfold evalNode Op.eval
      exact finish_fixed_eq_ideal _ _ h.1
    simp only [evalNodes, h1]
    exact ih _ h.2

/-! ## rounding over ℚ -/
theorem rfloor_le (x : ℚ) : (x.floor : ℚ) ≤ x := Int.floor_le x
theorem rlt_floor_add_one (x : ℚ) : x < (x.floor : ℚ) + 1 := Int.lt_floor_add_one x
theorem rfloor_eq_iff (x : ℚ) (z : ℤ) : x.floor = z ↔ (z : ℚ) ≤ x ∧ x < z + 1 :=
  show ⌊x⌋ = z ↔ _ from Int.floor_eq_iff

theorem floor_add_half (a : ℚ) :
    (a + 1 / 2).floor = a.floor + if a - (a.floor : ℚ) ≥ 1 / 2 then 1 else 0 := by
  have h1 := rfloor_le a
  have h2 := rlt_floor_add_one a
  split
  · next h =>
    rw [rfloor_eq_iff]
    push_cast
    constructor <;> linarith
  · next h =>
    simp only [ge_iff_le, not_le] at h
    rw [rfloor_eq_iff]
    push_cast
    constructor <;> linarith

theorem roundHalfEven_eq_jax (x : ℚ) : roundHalfEven x = Jax.round .toNearestEven x := by
  simp only [roundHalfEven, Jax.round]
  have h1 := rfloor_le x
  have h2 := rlt_floor_add_one x
  simp only [floor_add_half]
  generalize x.floor = f at *
  by_cases hlt : x - (f : ℚ) < 1 / 2
  · have hge : ¬ (x - (f : ℚ) ≥ 1 / 2) := by linarith
    have hb : ((x + 1 / 2 == ((f + 0 : ℤ) : ℚ)) && ((f + 0) % 2 != 0)) = false := by
      have : ¬ (x + 1 / 2 = ((f + 0 : ℤ) : ℚ)) := by push_cast; intro h; linarith
      simp only [beq_eq_false_iff_ne.mpr this, Bool.false_and]
    rw [if_pos hlt, if_neg hge, hb]
    simp only [Bool.false_eq_true, if_false, add_zero]
  · have hge : x - (f : ℚ) ≥ 1 / 2 := by linarith
    rw [if_neg hlt, if_pos hge]
    by_cases hgt : x - (f : ℚ) > 1 / 2
    · have hb : ((x + 1 / 2 == ((f + 1 : ℤ) : ℚ)) && ((f + 1) % 2 != 0)) = false := by
        have : ¬ (x + 1 / 2 = ((f + 1 : ℤ) : ℚ)) := by push_cast; intro h; linarith
        simp only [beq_eq_false_iff_ne.mpr this, Bool.false_and]
      rw [if_pos hgt, hb]
      simp only [Bool.false_eq_true, if_false]
    · have heq : x + 1 / 2 = ((f + 1 : ℤ) : ℚ) := by push_cast; linarith
      rw [if_neg hgt]
      by_cases hev : f % 2 = 0
      · have hb : ((x + 1 / 2 == ((f + 1 : ℤ) : ℚ)) && ((f + 1) % 2 != 0)) = true := by
          have : (f + 1) % 2 ≠ 0 := by omega
          simp only [beq_iff_eq.mpr heq, Bool.true_and, bne_iff_ne, ne_eq]
          exact this
        rw [if_pos hev, hb]
        simp only [if_true]; omega
      · have hb : ((x + 1 / 2 == ((f + 1 : ℤ) : ℚ)) && ((f + 1) % 2 != 0)) = false := by
          have : (f + 1) % 2 = 0 := by omega
          simp only [this, bne_self_eq_false, Bool.and_false]
        rw [if_neg hev, hb]
        simp only [Bool.false_eq_true, if_false]

theorem roundHalfEven_eq_away_of_not_tie (x : ℚ) (h : x - (x.floor : ℚ) ≠ 1 / 2) :
    roundHalfEven x = Jax.round .awayFromZero x := by
  simp only [roundHalfEven, Jax.round]
  have h1 := rfloor_le x
  have h2 := rlt_floor_add_one x
  by_cases hx : x ≥ 0
  · rw [if_pos hx, floor_add_half]
    generalize x.floor = f at *
    by_cases hlt : x - (f : ℚ) < 1 / 2
    · have hge : ¬ (x - (f : ℚ) ≥ 1 / 2) := by linarith
      rw [if_pos hlt, if_neg hge]; omega
    · have hgt : x - (f : ℚ) > 1 / 2 := by
        rcases lt_or_gt_of_ne h with h' | h'
        · exact absurd h' hlt
        · exact h'
      have hge : x - (f : ℚ) ≥ 1 / 2 := by linarith
      rw [if_neg hlt, if_pos hgt, if_pos hge]
  · rw [if_neg hx]
    generalize hf : x.floor = f at *
    by_cases hlt : x - (f : ℚ) < 1 / 2
    · rw [if_pos hlt]
      have : (-x + 1 / 2).floor = -f := by
        rw [rfloor_eq_iff]; push_cast; constructor <;> linarith
      rw [this]; omega
    · have hgt : x - (f : ℚ) > 1 / 2 := by
        rcases lt_or_gt_of_ne h with h' | h'
        · exact absurd h' hlt
        · exact h'
      rw [if_neg hlt, if_pos hgt]
      have : (-x + 1 / 2).floor = -f - 1 := by
        rw [rfloor_eq_iff]; push_cast; constructor <;> linarith
      rw [this]; omega

theorem roundAwayFix_eq (x : ℚ) : roundAwayFix x = Jax.round .awayFromZero x := by
  simp only [roundAwayFix, Jax.round]
  by_cases hx : x ≥ 0
  · have hnl : ¬ x < 0 := by linarith
    simp only [if_pos hx, if_neg hnl, floor_add_half]
    by_cases h0 : x > 0
    · simp only [if_pos h0, one_mul]
      split_ifs <;> omega
    · have : x = 0 := by linarith
      subst this
      simp only [if_neg h0, zero_mul]
      have hf : (0 : ℚ).floor = 0 := by rw [rfloor_eq_iff]; norm_num
      rw [hf]
      norm_num
  · have hl : x < 0 := by linarith
    have hng : ¬ x > 0 := by linarith
    simp only [if_neg hx, if_pos hl, if_neg hng, floor_add_half]
    split_ifs <;> omega

/-! ## arg-reductions: tie-breaking -/
theorem argBest_none (better : Int → Int → Bool) (l : List Int) :
    Jax.argBest better l = none ↔ l = [] := by
  cases l with
  | nil => simp [Jax.argBest]
  | cons x xs =>
    simp only [Jax.argBest]
    cases Jax.argBest better xs with
    | none => simp
    | some j => simp only []; split <;> simp

/-- The left-to-right ONNX scan started from a running best equals JAX's right-to-left
    recursion, for a strict comparison that is transitive and negatively transitive. -/
theorem argScan_eq (better : Int → Int → Bool)
    (hT : ∀ a b c, better a b = true → better b c = true → better a c = true)
    (hN : ∀ a b c, better a b = false → better b c = false → better a c = false)
    (xs : List Int) (i : Nat) (bv : Int) (bi : Nat) :
    Onnx.argScan better false xs i bv bi =
      match Jax.argBest better xs with
      | none => bi
      | some j => if better (xs.getD j 0) bv then i + j else bi := by
  induction xs generalizing i bv bi with
  | nil => simp [Onnx.argScan, Jax.argBest]
  | cons y ys ih =>
    simp only [Onnx.argScan, Jax.argBest, Bool.false_and, Bool.or_false]
    cases hb : Jax.argBest better ys with
    | none =>
      have hys : ys = [] := (argBest_none better ys).mp hb
      subst hys
      simp only [List.getD_cons_zero, Nat.add_zero]
      cases hy : better y bv <;> simp [Onnx.argScan]
    | some j =>
      simp only []
      cases hy : better y bv with
      | true =>
        simp only [if_true]
        rw [ih, hb]
        simp only []
        cases hM : better (ys.getD j 0) y with
        | true =>
          simp only [if_true, List.getD_cons_succ]
          rw [hT _ _ _ hM hy]
          simp only [if_true, Nat.add_assoc, Nat.add_comm 1 j]
        | false =>
          simp only [Bool.false_eq_true, if_false, List.getD_cons_zero, hy, if_true, Nat.add_zero]
      | false =>
        simp only [Bool.false_eq_true, if_false]
        rw [ih, hb]
        simp only []
        cases hM : better (ys.getD j 0) y with
        | true =>
          simp only [if_true, List.getD_cons_succ]
          cases better (ys.getD j 0) bv <;> simp <;> omega
        | false =>
          simp only [Bool.false_eq_true, if_false, List.getD_cons_zero, hy]
          rw [hN _ _ _ hM hy]
          simp

theorem argMax_first_eq (l : List Int) : Onnx.argMax false l = Jax.argmax l := by
  cases l with
  | nil => rfl
  | cons x xs =>
    simp only [Onnx.argMax, Jax.argmax, Jax.argBest]
    rw [argScan_eq]
    · cases Jax.argBest (fun cand cur => decide (cand > cur)) xs with
      | none => rfl
      | some j => simp only []; split <;> simp <;> omega
    · intro a b c h1 h2; simp only [decide_eq_true_eq] at *; omega
    · intro a b c h1 h2; simp only [decide_eq_false_iff_not] at *; omega

theorem argMin_first_eq (l : List Int) : Onnx.argMin false l = Jax.argmin l := by
  cases l with
  | nil => rfl
  | cons x xs =>
    simp only [Onnx.argMin, Jax.argmin, Jax.argBest]
    rw [argScan_eq]
    · cases Jax.argBest (fun cand cur => decide (cand < cur)) xs with
      | none => rfl
      | some j => simp only []; split <;> simp <;> omega
    · intro a b c h1 h2; simp only [decide_eq_true_eq] at *; omega
    · intro a b c h1 h2; simp only [decide_eq_false_iff_not] at *; omega

/-! ## cumulative sums -/
theorem cumsumFwd_length (acc : Int) (l : List Int) : (Jax.cumsumFwd acc l).length = l.length := by
  induction l generalizing acc with
  | nil => rfl
  | cons x xs ih => simp [Jax.cumsumFwd, ih]

theorem cumsumFwd_getElem (acc : Int) (l : List Int) (i : Nat) (h : i < l.length) :
    (Jax.cumsumFwd acc l)[i]'(by rw [cumsumFwd_length]; exact h) = acc + Onnx.sumList (l.take (i + 1)) := by
  induction l generalizing acc i with
  | nil => simp at h
  | cons x xs ih =>
    cases i with
    | zero => simp [Jax.cumsumFwd, Onnx.sumList]
    | succ k =>
      simp only [Jax.cumsumFwd, List.getElem_cons_succ, List.take_succ_cons, Onnx.sumList]
      rw [ih (acc + x) k (by simpa using h)]
      omega

theorem sumList_append (a b : List Int) : Onnx.sumList (a ++ b) = Onnx.sumList a + Onnx.sumList b := by
  induction a with
  | nil => simp [Onnx.sumList]
  | cons x xs ih => simp [Onnx.sumList, ih]; omega

theorem sumList_reverse (l : List Int) : Onnx.sumList l.reverse = Onnx.sumList l := by
  induction l with
  | nil => rfl
  | cons x xs ih => simp [Onnx.sumList, sumList_append, ih]; omega

theorem cumSum_eq (reverse : Bool) (l : List Int) :
    Onnx.cumSum false reverse l = Jax.cumsum reverse l := by
  apply List.ext_getElem
  · cases reverse <;> simp [Onnx.cumSum, Jax.cumsum, cumsumFwd_length]
  · intro i h1 h2
    have hi : i < l.length := by simpa [Onnx.cumSum] using h1
    cases reverse with
    | false =>
      simp only [Onnx.cumSum, Jax.cumsum, Bool.false_eq_true, if_false, List.getElem_map,
        List.getElem_range]
      rw [cumsumFwd_getElem 0 l i hi]; omega
    | true =>
      simp only [Onnx.cumSum, Jax.cumsum, if_true, Bool.false_eq_true, if_false, List.getElem_map,
        List.getElem_range, List.getElem_reverse]
      rw [cumsumFwd_getElem 0 l.reverse _ (by simp [cumsumFwd_length]; omega)]
      simp only [cumsumFwd_length, List.length_reverse]
      have : l.length - 1 - i + 1 = l.length - i := by omega
      rw [this, List.take_reverse, sumList_reverse]
      have : l.length - (l.length - i) = i := by omega
      rw [this]; omega


/-! ## integer division: floor from truncation -/
theorem int_sign_eq (x : Int) : Int.sign x = Jax.sign x := by
  unfold Jax.sign
  rcases Int.lt_trichotomy x 0 with h | h | h
  · rw [Int.sign_eq_neg_one_of_neg h]; split_ifs <;> omega
  · subst h; rfl
  · rw [Int.sign_eq_one_of_pos h]; split_ifs <;> omega

theorem tmod_eq_zero_iff_dvd (a b : Int) : a.tmod b = 0 ↔ b ∣ a := by
  constructor
  · intro h; exact Int.dvd_of_tmod_eq_zero h
  · intro h; exact Int.tmod_eq_zero_of_dvd h

theorem tmod_neg_iff (a b : Int) : a.tmod b < 0 ↔ (a < 0 ∧ ¬ b ∣ a) := by
  have hs := Int.sign_tmod a b
  constructor
  · intro h
    have : Int.sign (a.tmod b) = -1 := Int.sign_eq_neg_one_of_neg h
    rw [this] at hs
    split at hs
    · omega
    · next hd => exact ⟨by
        rcases Int.lt_trichotomy a 0 with h' | h' | h'
        · exact h'
        · subst h'; simp at hs
        · rw [Int.sign_eq_one_of_pos h'] at hs; omega, hd⟩
  · intro ⟨ha, hd⟩
    rw [if_neg hd, Int.sign_eq_neg_one_of_neg ha] at hs
    exact Int.sign_eq_neg_one_iff_neg.mp hs

/-- floor division from truncated division: subtract one exactly when the remainder is non-zero
    and its sign differs from the divisor's. -/
theorem fdiv_eq_tdiv_adjust (a b : Int) (hb : b ≠ 0) :
    a.fdiv b = if a.tmod b ≠ 0 ∧ ((a.tmod b < 0) ≠ (b < 0)) then a.tdiv b - 1 else a.tdiv b := by
  rw [Int.fdiv_eq_tdiv]
  have h0 := tmod_eq_zero_iff_dvd a b
  have hn := tmod_neg_iff a b
  by_cases hd : b ∣ a
  · have : a.tmod b = 0 := h0.mpr hd
    simp [hd, this]
  · have hne : a.tmod b ≠ 0 := fun h => hd (h0.mp h)
    simp only [hd, if_false, hne, ne_eq, not_false_eq_true, true_and]
    by_cases ha : 0 ≤ a <;> by_cases hbb : 0 ≤ b
    · have h1 : ¬ a.tmod b < 0 := fun h => by have := (hn.mp h).1; omega
      have h2 : ¬ b < 0 := by omega
      simp [ha, hbb, h1, h2]
    · have h1 : ¬ a.tmod b < 0 := fun h => by have := (hn.mp h).1; omega
      have h2 : b < 0 := by omega
      simp [ha, hbb, h1, h2]
    · have h1 : a.tmod b < 0 := hn.mpr ⟨by omega, hd⟩
      have h2 : ¬ b < 0 := by omega
      have h3 : 0 < b := by omega
      simp [ha, hbb, h1, h2, h3]
    · have h1 : a.tmod b < 0 := hn.mpr ⟨by omega, hd⟩
      have h2 : b < 0 := by omega
      have h3 := Int.sign_eq_neg_one_of_neg h2
      simp [ha, hbb, h1, h2, h3]

theorem fmod_eq_tmod_adjust (a b : Int) (hb : b ≠ 0) :
    a.fmod b = if a.tmod b ≠ 0 ∧ ((a.tmod b < 0) ≠ (b < 0)) then a.tmod b + b else a.tmod b := by
  rw [Int.fmod_def, fdiv_eq_tdiv_adjust a b hb, Int.tmod_def]
  split_ifs
  · rw [Int.mul_sub, Int.mul_one]; omega
  · rfl

/-! ## the repaired `lax.round(AWAY_FROM_ZERO)` lowering, as a rational -/

theorem mkRat_half : mkRat 1 2 = (1 / 2 : ℚ) := by rw [Rat.mkRat_eq_div]; norm_num
theorem mkRat_one : mkRat 1 1 = (1 : ℚ) := by rw [Rat.mkRat_eq_div]; norm_num

/-- `Sign(x) * Where(|x| - Floor|x| >= 1/2, Floor|x| + 1, Floor|x|)` over ℚ is `roundAwayFix`. -/
theorem roundAwayFix_cast (x : ℚ) :
    ratSign x * (if (if x < 0 then -x else x) - ((ratFloor (if x < 0 then -x else x) : ℤ) : ℚ) ≥ 1 / 2
        then ((ratFloor (if x < 0 then -x else x) : ℤ) : ℚ) + 1 else ((ratFloor (if x < 0 then -x else x) : ℤ) : ℚ))
      = ((roundAwayFix x : ℤ) : ℚ) := by
  simp only [roundAwayFix, ratSign, ratFloor]
  by_cases hp : x > 0
  · have hn : ¬ x < 0 := by linarith
    simp only [hp, hn, if_true, if_false]
    split_ifs <;> push_cast <;> ring
  · by_cases hn : x < 0
    · simp only [hp, hn, if_true, if_false]
      split_ifs <;> push_cast <;> ring
    · simp only [hp, hn, if_false]
      split_ifs <;> push_cast <;> ring

/-! ## automation shared by the regenerated-recipe obligations (`GenProps/C01*.lean`) -/

/-- Unfold the evaluation of a concrete recipe on symbolic inputs into plain arithmetic. -/
macro "recipe_simp" : tactic =>
  `(tactic| simp only [Recipe.eval, evalNodes, evalNode, getV, Op.eval, Op.core, finish, nrm,
      List.map, List.getD_cons_zero, List.getD_cons_succ, List.cons_append, List.nil_append,
      List.getD_eq_getElem?_getD, List.getElem?_cons_zero, List.getElem?_cons_succ, Option.getD_some])

end J2O.C01
