/-
C06, round 2 — helper lemmas (core Lean only): index arithmetic of the broadcast freeze mask, the
`Where` of the vmapped while lane by lane, a `loopGo` congruence under an invariant, stacked extents
of a `Loop` whose condition is passed through, memo lookup.
-/
import J2O.Lemmas.C06
import J2O.Model.C06R2
set_option linter.unusedVariables false
set_option linter.unusedSimpArgs false
namespace J2O.C06
universe u v w

/-! ### mask axes / shape -/

theorem foldl_unsq1_range (ps : List Nat) : ∀ r : Nat,
    ((List.range r).map (· + ps.length)).foldl unsq1 ps = ps ++ List.replicate r 1
  | 0 => by simp
  | r + 1 => by
    rw [List.range_succ, List.map_append, List.foldl_append, foldl_unsq1_range ps r]
    simp only [List.map_cons, List.map_nil, List.foldl_cons, List.foldl_nil, unsq1]
    have hlen : (ps ++ List.replicate r 1).length = r + ps.length := by simp [Nat.add_comm]
    rw [List.take_of_length_le (by omega), List.drop_eq_nil_of_le (by omega)]
    simp [List.replicate_succ', List.append_assoc]

/-- contains on the prescribed axes -/
theorem maskAxes_contains (p n pos : Nat) :
    (maskAxes p n).contains pos = (decide (p ≤ pos) && decide (pos < n)) := by
  unfold maskAxes
  rw [Bool.eq_iff_iff]
  simp only [List.contains_iff_mem, List.mem_map, List.mem_range, Bool.and_eq_true, decide_eq_true_eq]
  constructor
  · rintro ⟨a, ha, rfl⟩; omega
  · rintro ⟨h1, h2⟩; exact ⟨pos - p, by omega, by omega⟩

theorem dropAxes_tail (p n : Nat) : ∀ (zs : List Nat) (pos : Nat),
    p ≤ pos → pos + zs.length = n → dropAxes (maskAxes p n) pos zs = []
  | [], _, _, _ => rfl
  | z :: zs, pos, hp, hn => by
    simp only [List.length_cons] at hn
    have hc : (maskAxes p n).contains pos = true := by
      rw [maskAxes_contains]; simp; omega
    simp only [dropAxes, hc, if_true]
    exact dropAxes_tail p n zs (pos + 1) (by omega) (by omega)

/-- `Unsqueeze(pred, maskAxes)` read at `pi ++ zs` gives `pred[pi]` -/
theorem dropAxes_maskAxes (p n : Nat) : ∀ (pi zs : List Nat) (pos : Nat),
    pos + pi.length = p → p + zs.length = n → dropAxes (maskAxes p n) pos (pi ++ zs) = pi
  | [], zs, pos, hp, hn => by
    simp only [List.length_nil, Nat.add_zero] at hp
    simp only [List.nil_append]
    exact dropAxes_tail p n zs pos (by omega) (by omega)
  | i :: pi, zs, pos, hp, hn => by
    simp only [List.length_cons] at hp
    have hc : (maskAxes p n).contains pos = false := by
      rw [maskAxes_contains]; simp; omega
    simp only [List.cons_append, dropAxes, hc]
    rw [dropAxes_maskAxes p n pi zs (pos + 1) (by omega) hn]
    simp

/-! ### broadcasting -/

theorem zipWith_ones_zero : ∀ (r : Nat) (ri : List Nat), ri.length = r →
    List.zipWith (fun m i => if m = 1 then 0 else i) (List.replicate r 1) ri = List.replicate r 0
  | 0, [], _ => rfl
  | r + 1, i :: ri, h => by
    simp only [List.length_cons, Nat.add_right_cancel_iff] at h
    simp [List.replicate_succ, zipWith_ones_zero r ri h]
  | 0, _ :: _, h => by simp at h
  | _ + 1, [], h => by simp at h

/-- a mask of shape `(B,1,…,1)` (one singleton per trailing state dimension) reads lane `j` for every
    element `(j, ri)` of the state, whatever the trailing extents are -/
theorem bproj_lane (B j r : Nat) (ri : List Nat) (hri : ri.length = r) (hj : j < B) :
    bproj (B :: List.replicate r 1) (j :: ri) = j :: List.replicate r 0 := by
  unfold bproj
  have h0 : (j :: ri).length - (B :: List.replicate r 1).length = 0 := by simp [hri]
  rw [h0]
  simp only [List.drop_zero, List.zipWith_cons_cons, zipWith_ones_zero r ri hri]
  by_cases hB : B = 1
  · subst hB; have : j = 0 := by omega
    simp [this]
  · simp [hB]

theorem unsqueezeShape_maskAxes (B r : Nat) :
    unsqueezeShape [B] (maskAxes 1 (1 + r)) = B :: List.replicate r 1 := by
  unfold unsqueezeShape maskAxes
  have h : 1 + r - 1 = r := by omega
  rw [h]
  exact foldl_unsq1_range [B] r

theorem unsqueezeShape_maskAxes_gen (ps : List Nat) (r : Nat) :
    unsqueezeShape ps (maskAxes ps.length (ps.length + r)) = maskShape ps (ps.length + r) := by
  unfold unsqueezeShape maskAxes maskShape
  have h : ps.length + r - ps.length = r := by omega
  rw [h]
  exact foldl_unsq1_range ps r

theorem maskOf_lane (preds : List Bool) (j r : Nat) :
    maskOf preds (maskAxes 1 (1 + r)) (j :: List.replicate r 0) = preds.getD j false := by
  unfold maskOf
  have := dropAxes_maskAxes 1 (1 + r) [j] (List.replicate r 0) 0 (by simp) (by simp)
  simp only [List.cons_append, List.nil_append] at this
  rw [this]

/-! ### the freeze, lane by lane -/

/-- per-lane select: lane `j` takes the candidate iff its predicate holds -/
def selectLanes {τ : Type u} : List Bool → List τ → List τ → List τ
  | p :: ps, c :: cs, v :: vs => (if p then c else v) :: selectLanes ps cs vs
  | _, _, _ => []

theorem selectLanes_map {τ : Type u} (b : τ → τ) : ∀ (preds : List Bool) (l : List τ),
    selectLanes preds (l.map b) l = (preds.zip l).map (fun ps => if ps.1 then b ps.2 else ps.2)
  | [], l => by cases l <;> simp [selectLanes]
  | _ :: _, [] => by simp [selectLanes]
  | p :: ps, s :: l => by simp [selectLanes, selectLanes_map b ps l]

theorem getD_append_self (pre : List Bool) (p : Bool) (ps : List Bool) :
    (pre ++ p :: ps).getD pre.length false = p := by
  simp [List.getD]

/-- **the tensor-level `Where` with the prescribed mask is the per-lane select**, for carried tensors
    of every rank `r` -/
theorem whereLanesGo_lane {α : Type u} {r : Nat} : ∀ (preds pre : List Bool) (cand prev : List (Lane α r)),
    cand.length = preds.length →
    whereLanesGo ((pre ++ preds).length :: List.replicate r 1)
        (maskOf (pre ++ preds) (maskAxes 1 (1 + r))) pre.length cand prev
      = selectLanes preds cand prev
  | [], pre, [], prev, _ => by simp [whereLanesGo, selectLanes]
  | [], pre, _ :: _, prev, h => by simp at h
  | p :: ps, pre, [], prev, h => by simp at h
  | p :: ps, pre, cl :: cs, [], _ => by simp [whereLanesGo, selectLanes]
  | p :: ps, pre, cl :: cs, pl :: pls, h => by
    simp only [List.length_cons, Nat.add_right_cancel_iff] at h
    simp only [whereLanesGo, selectLanes]
    congr 1
    · funext ri
      rw [bproj_lane _ _ r ri.val ri.property (by simp), maskOf_lane, getD_append_self]
      cases p <;> rfl
    · have := whereLanesGo_lane (α := α) (r := r) ps (pre ++ [p]) cs pls h
      simp only [List.append_assoc, List.cons_append, List.nil_append, List.length_append,
        List.length_cons, List.length_nil] at this
      simpa using this

/-! ### Loop congruence under an invariant; stacked extent of a pass-through condition -/

theorem loopGo_congr_inv {σ : Type u} {υ : Type v} (Inv : σ → Prop)
    (f g : Nat → Bool → σ → Bool × σ × υ)
    (hfg : ∀ i c s, Inv s → f i c s = g i c s) (hinv : ∀ i c s, Inv s → Inv (g i c s).2.1) :
    ∀ (rem i : Nat) (c : Bool) (s : σ) (acc : List υ), Inv s → loopGo f rem i c s acc = loopGo g rem i c s acc
  | 0, _, _, _, _, _ => rfl
  | rem + 1, i, c, s, acc, h => by
    simp only [loopGo]
    cases c with
    | false => rfl
    | true =>
      simp only [if_true, hfg i true s h]
      exact loopGo_congr_inv Inv f g hfg hinv rem (i + 1) _ _ _ (hinv i true s h)

/-- a Loop whose body passes the condition through and that starts with `true` stacks exactly `rem`
    outputs -/
theorem loopGo_pass_length {σ : Type u} {υ : Type v} (body : Nat → Bool → σ → Bool × σ × υ)
    (hpass : ∀ i c s, (body i c s).1 = c) :
    ∀ (rem i : Nat) (s : σ) (acc : List υ), (loopGo body rem i true s acc).2.length = acc.length + rem
  | 0, _, _, _ => by simp [loopGo]
  | rem + 1, i, s, acc => by
    simp only [loopGo, if_true]
    have h1 : (body i true s).1 = true := hpass i true s
    rw [h1, loopGo_pass_length body hpass rem (i + 1) _ _]
    simp; omega

theorem loopGo_noxs {κ : Type u} {υ : Type w} (f : κ → κ × υ) :
    ∀ (n i : Nat) (c : κ) (acc : List υ),
      loopGo (fun _ cin c => let o := f c; (cin, o.1, o.2)) n i true c acc
        = ((scanJ (fun c (_ : Unit) => f c) c (List.replicate n ())).1,
           acc ++ (scanJ (fun c (_ : Unit) => f c) c (List.replicate n ())).2)
  | 0, _, _, _ => by simp [loopGo, scanJ]
  | n + 1, i, c, acc => by
    simp only [loopGo, if_true, List.replicate_succ, scanJ]
    rw [loopGo_noxs f n (i + 1) (f c).1 (acc ++ [(f c).2])]
    simp

/-! ### memo -/

theorem memoLookup_ok {E : Type u} {K : Type v} {B : Type w} [DecidableEq K] (key : E → K) (trace : E → B)
    (e : E) : ∀ (cache : List (K × B)) (b : B),
      (∀ kb ∈ cache, ∀ e', key e' = kb.1 → trace e' = kb.2) → memoLookup (key e) cache = some b → b = trace e
  | [], _, _, h => by simp [memoLookup] at h
  | (k', b') :: rest, b, hc, h => by
    simp only [memoLookup] at h
    split at h
    · rename_i hk
      cases h
      exact (hc (k', b') (by simp) e hk).symm
    · exact memoLookup_ok key trace e rest b (fun kb hkb => hc kb (by simp [hkb])) h

end J2O.C06
