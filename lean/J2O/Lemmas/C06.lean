/-
C06 — helper definitions and lemmas (core Lean only); the property theorems are in
`J2O.Props.C06`.  Each `loopGo_*` lemma is the induction over the trip count for one scheme,
generalised over the iteration number, the state and the outputs stacked so far.
-/
import J2O.Model.C06
set_option linter.unusedVariables false
set_option linter.unusedSimpArgs false
namespace J2O.C06
universe u v w

theorem iter_succ' {σ : Type u} (b : σ → σ) (n : Nat) (s : σ) : iter b (n + 1) s = iter b n (b s) := rfl

theorem loopGo_while {σ : Type u} (c : σ → Bool) (b : σ → σ) :
    ∀ (k rem i : Nat) (s : σ) (acc : List Unit), k ≤ rem →
      (∀ j, j < k → c (iter b j s) = true) → c (iter b k s) = false →
      loopGo (fun _ _ s => (c (b s), b s, ())) rem i (c s) s acc = (iter b k s, acc ++ List.replicate k ())
  | 0, rem, i, s, acc, _, _, hf => by
    simp only [iter] at hf
    cases rem with
    | zero => simp [loopGo, iter]
    | succ r => simp [loopGo, hf, iter]
  | k + 1, rem, i, s, acc, hle, ht, hf => by
    cases rem with
    | zero => omega
    | succ r =>
      have h0 : c s = true := ht 0 (by omega)
      simp only [loopGo, h0, if_true]
      have := loopGo_while c b k r (i + 1) (b s) (acc ++ [()]) (by omega)
        (fun j hj => ht (j + 1) (by omega)) hf
      rw [this]
      simp [iter, List.replicate_succ]

/-! fori -/
theorem loopGo_fori {σ : Type u} (b : Int → σ → σ) (lo : Int) :
    ∀ (n i : Nat) (s : σ) (acc : List Unit),
      loopGo (fun i cin s => (cin, b (lo + i) s, ())) n i true s acc
        = (foriJ b (lo + i) n s, acc ++ List.replicate n ())
  | 0, i, s, acc => by simp [loopGo, foriJ]
  | n + 1, i, s, acc => by
    simp only [loopGo, if_true]
    rw [loopGo_fori b lo n (i + 1) (b (lo + i) s) (acc ++ [()])]
    simp [foriJ, Int.add_assoc, List.replicate_succ]

/-! scan -/
theorem getD_append_length {χ : Type v} [Inhabited χ] (pre : List χ) (x : χ) (xs : List χ) :
    (pre ++ x :: xs).getD pre.length default = x := by
  simp [List.getD]

theorem loopGo_scan {κ : Type u} {χ : Type v} {υ : Type w} [Inhabited χ] (f : κ → χ → κ × υ) :
    ∀ (xs pre : List χ) (c : κ) (acc : List υ),
      loopGo (fun i cin (st : κ × List χ) =>
          let o := f st.1 (st.2.getD i default); (cin, (o.1, st.2), o.2))
        xs.length pre.length true (c, pre ++ xs) acc
        = (((scanJ f c xs).1, pre ++ xs), acc ++ (scanJ f c xs).2)
  | [], pre, c, acc => by simp [loopGo, scanJ]
  | x :: xs, pre, c, acc => by
    simp only [List.length_cons, loopGo, if_true, getD_append_length]
    have h := loopGo_scan f xs (pre ++ [x]) (f c x).1 (acc ++ [(f c x).2])
    simp only [List.length_append, List.length_cons, List.length_nil, List.append_assoc,
      List.cons_append, List.nil_append] at h
    rw [h]
    simp [scanJ]

theorem scanJ_length {κ : Type u} {χ : Type v} {υ : Type w} (f : κ → χ → κ × υ) :
    ∀ (c : κ) (xs : List χ), (scanJ f c xs).2.length = xs.length
  | c, [] => rfl
  | c, x :: xs => by simp [scanJ, scanJ_length f _ xs]

/-- one lane step: an inactive lane keeps its state -/
def stepL {τ : Type u} (c : τ → Bool) (b : τ → τ) (s : τ) : τ := if c s then b s else s

theorem zip_mask {τ : Type u} (c : τ → Bool) (b : τ → τ) : ∀ (l : List τ),
    ((l.map c).zip l).map (fun ps => if ps.1 then b ps.2 else ps.2) = l.map (stepL c b)
  | [] => rfl
  | s :: l => by simp [stepL, zip_mask c b l]

theorem whileRes_zero_of_false {τ : Type u} (c : τ → Bool) (b : τ → τ) (s y : τ) (k : Nat)
    (h : WhileRes c b s k y) (hc : c s = false) : k = 0 ∧ y = s := by
  obtain ⟨ht, hf, hy⟩ := h
  cases k with
  | zero => exact ⟨rfl, hy⟩
  | succ n => have := ht 0 (by omega); simp [iter, hc] at this

theorem whileRes_step {τ : Type u} (c : τ → Bool) (b : τ → τ) (s y : τ) (k : Nat)
    (h : WhileRes c b s (k + 1) y) : c s = true ∧ WhileRes c b (b s) k y := by
  obtain ⟨ht, hf, hy⟩ := h
  exact ⟨ht 0 (by omega), fun i hi => ht (i + 1) (by omega), hf, hy⟩

/-- lanes `l` end in `ys`, each within `K` own iterations -/
def LanesEnd {τ : Type u} (c : τ → Bool) (b : τ → τ) (K : Nat) : List τ → List τ → Prop
  | [], [] => True
  | s :: l, y :: ys => (∃ k, k ≤ K ∧ WhileRes c b s k y) ∧ LanesEnd c b K l ys
  | _, _ => False

theorem lanesEnd_zero {τ : Type u} (c : τ → Bool) (b : τ → τ) : ∀ (l ys : List τ),
    LanesEnd c b 0 l ys → ys = l ∧ (l.map c).any id = false
  | [], [], _ => ⟨rfl, rfl⟩
  | s :: l, y :: ys, ⟨⟨k, hk, hr⟩, h⟩ => by
    have hk0 : k = 0 := by omega
    subst hk0
    obtain ⟨_, hf, hy⟩ := hr
    simp only [iter] at hf hy
    obtain ⟨h1, h2⟩ := lanesEnd_zero c b l ys h
    subst hy h1
    exact ⟨rfl, by simpa [hf] using h2⟩
  | [], _ :: _, h => h.elim
  | _ :: _, [], h => h.elim

theorem lanesEnd_allFalse {τ : Type u} (c : τ → Bool) (b : τ → τ) (K : Nat) : ∀ (l ys : List τ),
    LanesEnd c b K l ys → (l.map c).any id = false → ys = l
  | [], [], _, _ => rfl
  | s :: l, y :: ys, ⟨⟨k, hk, hr⟩, h⟩, hany => by
    simp only [List.map_cons, List.any_cons, id, Bool.or_eq_false_iff] at hany
    obtain ⟨_, hy⟩ := whileRes_zero_of_false c b s y k hr hany.1
    rw [hy, lanesEnd_allFalse c b K l ys h hany.2]
  | [], _ :: _, h, _ => h.elim
  | _ :: _, [], h, _ => h.elim

theorem lanesEnd_step {τ : Type u} (c : τ → Bool) (b : τ → τ) (K : Nat) : ∀ (l ys : List τ),
    LanesEnd c b (K + 1) l ys → LanesEnd c b K (l.map (stepL c b)) ys
  | [], [], _ => trivial
  | s :: l, y :: ys, ⟨⟨k, hk, hr⟩, h⟩ => by
    refine ⟨?_, lanesEnd_step c b K l ys h⟩
    cases k with
    | zero =>
      obtain ⟨_, hf, hy⟩ := hr
      simp only [iter] at hf hy
      exact ⟨0, by omega, by simpa [stepL, hf, WhileRes, iter] using hy⟩
    | succ n =>
      obtain ⟨hc, hr'⟩ := whileRes_step c b s y n hr
      exact ⟨n, by omega, by simpa [stepL, hc] using hr'⟩
  | [], _ :: _, h => h.elim
  | _ :: _, [], h => h.elim

/-- body of `whileBatchedScheme` -/
abbrev batchedBody {τ : Type u} (c : τ → Bool) (b : τ → τ) :
    Nat → Bool → List Bool × List τ → Bool × (List Bool × List τ) × Unit :=
  fun _ _ st =>
    let new := (st.1.zip st.2).map fun ps => if ps.1 then b ps.2 else ps.2
    let pred := new.map c
    (pred.any id, (pred, new), ())

theorem loopGo_batched {τ : Type u} (c : τ → Bool) (b : τ → τ) :
    ∀ (K rem i : Nat) (l ys : List τ) (acc : List Unit), K ≤ rem → LanesEnd c b K l ys →
      (loopGo (batchedBody c b) rem i ((l.map c).any id) (l.map c, l) acc).1 = (ys.map c, ys)
  | 0, rem, i, l, ys, acc, _, h => by
    obtain ⟨rfl, hany⟩ := lanesEnd_zero c b l ys h
    cases rem with
    | zero => simp [loopGo]
    | succ r => simp [loopGo, hany]
  | K + 1, rem, i, l, ys, acc, hle, h => by
    cases rem with
    | zero => omega
    | succ r =>
      cases hany : (l.map c).any id with
      | false =>
        have := lanesEnd_allFalse c b (K + 1) l ys h hany
        subst this
        simp [loopGo]
      | true =>
        simp only [loopGo, if_true, zip_mask]
        exact loopGo_batched c b K r (i + 1) (l.map (stepL c b)) ys _ (by omega)
          (lanesEnd_step c b K l ys h)

end J2O.C06
