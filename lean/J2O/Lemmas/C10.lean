/-
C10 — helper lemmas (property theorems are in `J2O.Props.C10`).
-/
import J2O.Lemmas.C01
import J2O.Model.C10
import Mathlib.Data.List.Basic
import Mathlib.Tactic.Ring
set_option linter.unusedSimpArgs false
set_option linter.unusedVariables false
set_option linter.unreachableTactic false
set_option linter.unusedTactic false
set_option linter.unnecessarySeqFocus false

namespace J2O.C10
open J2O.C01

/-! ## jaxpr renaming -/

def Sim {W : Type} (V : List Nat) (ρ : Nat → Nat) (e e' : Env W) : Prop := ∀ x ∈ V, e x = e' (ρ x)
def InjOn (ρ : Nat → Nat) (V : List Nat) : Prop := ∀ a ∈ V, ∀ b ∈ V, ρ a = ρ b → a = b

theorem evalAtoms_rename {W : Type} (V : List Nat) (ρ : Nat → Nat) (e e' : Env W) (hs : Sim V ρ e e')
    (as : List (Atom W)) (hsub : ∀ x ∈ atomVars as, x ∈ V) :
    evalAtoms e' (as.map (renameAtom ρ)) = evalAtoms e as := by
  induction as with
  | nil => rfl
  | cons a as ih =>
    cases a with
    | var x =>
      have hx : x ∈ V := hsub x (by simp [atomVars])
      have ih' := ih (fun y hy => hsub y (by simp [atomVars, hy]))
      simp only [List.map, evalAtoms, renameAtom, evalAtom, ih', hs x hx]
    | lit c =>
      have ih' := ih (fun y hy => hsub y (by simp [atomVars, hy]))
      simp only [List.map, evalAtoms, renameAtom, evalAtom, ih']

theorem sim_set {W : Type} (V : List Nat) (ρ : Nat → Nat) (hinj : InjOn ρ V) (e e' : Env W)
    (hs : Sim V ρ e e') (x : Nat) (hx : x ∈ V) (v : W) : Sim V ρ (e.set x v) (e'.set (ρ x) v) := by
  intro z hz
  simp only [Env.set]
  by_cases h : z = x
  · subst h; simp
  · have : ρ z ≠ ρ x := fun he => h (hinj z hz x hx he)
    simp [h, this, hs z hz]

theorem sim_bindOuts {W : Type} (V : List Nat) (ρ : Nat → Nat) (hinj : InjOn ρ V) (outs : List (Option Nat))
    (hsub : ∀ x ∈ outVars outs, x ∈ V) (vals : List W) (e e' : Env W) (hs : Sim V ρ e e') :
    Sim V ρ (bindOuts e outs vals) (bindOuts e' (outs.map (Option.map ρ)) vals) := by
  induction outs generalizing e e' vals with
  | nil => simpa [bindOuts] using hs
  | cons o os ih =>
    cases vals with
    | nil => cases o <;> simpa [bindOuts] using hs
    | cons v vs =>
      cases o with
      | none =>
        simp only [List.map, Option.map, bindOuts]
        exact ih (fun x hx => hsub x (by simp [outVars, hx])) vs e e' hs
      | some y =>
        simp only [List.map, Option.map, bindOuts]
        exact ih (fun x hx => hsub x (by simp [outVars, hx])) vs _ _
          (sim_set V ρ hinj e e' hs y (hsub y (by simp [outVars])) v)

theorem frame_bindOuts {W : Type} (ρ : Nat → Nat) (outs : List (Option Nat)) (vals : List W) (e' : Env W)
    (y : Nat) (hy : y ∉ (outVars outs).map ρ) :
    bindOuts e' (outs.map (Option.map ρ)) vals y = e' y := by
  induction outs generalizing e' vals with
  | nil => simp [bindOuts]
  | cons o os ih =>
    cases vals with
    | nil => cases o <;> simp [bindOuts]
    | cons v vs =>
      cases o with
      | none =>
        simp only [List.map, Option.map, bindOuts]
        exact ih vs e' (by simpa [outVars] using hy)
      | some x =>
        simp only [List.map, Option.map, bindOuts]
        have hy' : y ∉ (outVars os).map ρ ∧ y ≠ ρ x := by
          simp only [outVars, List.map_cons, List.mem_cons, not_or] at hy
          exact ⟨hy.2, hy.1⟩
        rw [ih vs _ hy'.1]
        simp [Env.set, hy'.2]

theorem evalEqns_rename {P W : Type} (sem : P → List W → List W) (V : List Nat) (ρ : Nat → Nat)
    (hinj : InjOn ρ V) (eqns : List (Eqn P W)) (hsub : ∀ x ∈ eqnsVars eqns, x ∈ V)
    (e e' : Env W) (hs : Sim V ρ e e') (f : Env W) (hev : evalEqns sem e eqns = some f) :
    ∃ f', evalEqns sem e' (eqns.map (renameEqn ρ)) = some f' ∧ Sim V ρ f f' ∧
      ∀ y, y ∉ V.map ρ → f' y = e' y := by
  induction eqns generalizing e e' with
  | nil =>
    simp only [evalEqns, Option.some.injEq] at hev
    subst hev
    exact ⟨e', rfl, hs, fun _ _ => rfl⟩
  | cons q qs ih =>
    simp only [evalEqns] at hev
    cases h1 : evalEqn sem e q with
    | none => rw [h1] at hev; exact absurd hev (by simp)
    | some e1 =>
      rw [h1] at hev
      have hq : ∀ x ∈ eqnVars q, x ∈ V := fun x hx => hsub x (by simp [eqnsVars, hx])
      have hqs : ∀ x ∈ eqnsVars qs, x ∈ V := fun x hx => hsub x (by simp [eqnsVars, hx])
      -- one step
      unfold evalEqn at h1
      have hat := evalAtoms_rename V ρ e e' hs q.ins (fun x hx => hq x (by simp [eqnVars, hx]))
      cases hv : evalAtoms e q.ins with
      | none => rw [hv] at h1; exact absurd h1 (by simp)
      | some vals =>
        rw [hv] at h1
        dsimp only at h1
        split at h1
        · next hlen =>
          simp only [Option.some.injEq] at h1
          subst h1
          have hstep : evalEqn sem e' (renameEqn ρ q) =
              some (bindOuts e' (q.outs.map (Option.map ρ)) (sem q.prim vals)) := by
            unfold evalEqn
            simp only [renameEqn, hat, hv, List.length_map, hlen, if_true]
          have hs1 := sim_bindOuts V ρ hinj q.outs (fun x hx => hq x (by simp [eqnVars, hx]))
            (sem q.prim vals) e e' hs
          obtain ⟨f', hf', hsf, hfr⟩ := ih hqs _ _ hs1 hev
          refine ⟨f', ?_, hsf, ?_⟩
          · simp only [List.map, evalEqns, hstep]; exact hf'
          · intro y hy
            rw [hfr y hy]
            apply frame_bindOuts
            intro hm
            apply hy
            obtain ⟨x, hx, rfl⟩ := List.mem_map.mp hm
            exact List.mem_map.mpr ⟨x, hq x (by simp [eqnVars, hx]), rfl⟩
        · exact absurd h1 (by simp)


theorem sim_bindVars {W : Type} (V : List Nat) (ρ : Nat → Nat) (hinj : InjOn ρ V) (xs : List Nat)
    (hsub : ∀ x ∈ xs, x ∈ V) (vals : List W) (e e' : Env W) (hs : Sim V ρ e e') :
    Sim V ρ (bindVars e xs vals) (bindVars e' (xs.map ρ) vals) := by
  induction xs generalizing e e' vals with
  | nil => simpa [bindVars] using hs
  | cons y ys ih =>
    cases vals with
    | nil => simpa [bindVars] using hs
    | cons v vs =>
      simp only [List.map, bindVars]
      exact ih (fun x hx => hsub x (by simp [hx])) vs _ _
        (sim_set V ρ hinj e e' hs y (hsub y (by simp)) v)

theorem frame_bindVars {W : Type} (xs : List Nat) (vals : List W) (e : Env W) (y : Nat) (hy : y ∉ xs) :
    bindVars e xs vals y = e y := bindVars_frame e xs vals y hy

/-- **Inlining under a fresh injective renaming is sound.** -/
theorem inline_fresh_sound_aux {P W : Type} (sem : P → List W → List W) (env : Env W) (ρ : Nat → Nat)
    (j : Jaxpr P W) (consts : List W) (args : List (Atom W)) (outs : List (Option Nat))
    (hinj : InjOn ρ (jaxprVars j)) (hfresh : ∀ x ∈ jaxprVars j, env (ρ x) = none)
    (env' : Env W) (hop : opaqueEval sem env j consts args outs = some env') :
    ∃ env'', inlineEval sem env ρ j consts args outs = some env'' ∧
      ∀ y, y ∉ (jaxprVars j).map ρ → env'' y = env' y := by
  unfold opaqueEval at hop
  cases hv : evalAtoms env args with
  | none => rw [hv] at hop; exact absurd hop (by simp)
  | some vals =>
    rw [hv] at hop
    dsimp only at hop
    cases hj : evalJaxpr sem j consts vals with
    | none => rw [hj] at hop; exact absurd hop (by simp)
    | some rs =>
      rw [hj] at hop
      dsimp only at hop
      split at hop
      · next hlen =>
        simp only [Option.some.injEq] at hop
        subst hop
        unfold evalJaxpr at hj
        cases hf : evalEqns sem (bindVars (bindVars Env.empty j.constvars consts) j.invars vals) j.eqns with
        | none => rw [hf] at hj; exact absurd hj (by simp)
        | some f =>
          rw [hf] at hj
          dsimp only at hj
          set V := jaxprVars j with hV
          have hc : ∀ x ∈ j.constvars, x ∈ V := fun x hx => by simp [hV, jaxprVars, hx]
          have hi : ∀ x ∈ j.invars, x ∈ V := fun x hx => by simp [hV, jaxprVars, hx]
          have he : ∀ x ∈ eqnsVars j.eqns, x ∈ V := fun x hx => by simp [hV, jaxprVars, hx]
          have ho : ∀ x ∈ atomVars j.outs, x ∈ V := fun x hx => by simp [hV, jaxprVars, hx]
          have hs0 : Sim V ρ (Env.empty : Env W) env := fun x hx => by
            simp [Env.empty, hfresh x hx]
          have hs1 := sim_bindVars V ρ hinj j.invars hi vals _ _
            (sim_bindVars V ρ hinj j.constvars hc consts _ _ hs0)
          obtain ⟨f', hf', hsf, hfr⟩ := evalEqns_rename sem V ρ hinj j.eqns he _ _ hs1 f hf
          have hout := evalAtoms_rename V ρ f f' hsf j.outs ho
          refine ⟨bindOuts f' outs rs, ?_, ?_⟩
          · unfold inlineEval
            simp only [hv, hf', hout, hj, hlen, if_true]
          · intro y hy
            rw [bindOuts_eq f', bindOuts_eq env]
            have : f' y = env y := by
              rw [hfr y hy]
              rw [frame_bindVars, frame_bindVars]
              · intro hm; apply hy
                obtain ⟨x, hx, rfl⟩ := List.mem_map.mp hm
                exact List.mem_map.mpr ⟨x, hc x hx, rfl⟩
              · intro hm; apply hy
                obtain ⟨x, hx, rfl⟩ := List.mem_map.mp hm
                exact List.mem_map.mpr ⟨x, hi x hx, rfl⟩
            rw [this]
      · exact absurd hop (by simp)


/-! ## broadcast batcher: index lemmas -/

def g1 (d j : Nat) : Nat := if d = 1 then 0 else j

theorem bidx_def (s idx : List Nat) : bidx s idx = List.zipWith g1 s (idx.drop (idx.length - s.length)) := rfl

theorem bidx_same_len (s idx : List Nat) (h : idx.length = s.length) : bidx s idx = List.zipWith g1 s idx := by
  rw [bidx_def, h, Nat.sub_self, List.drop_zero]

theorem bidx_nil (idx : List Nat) : bidx [] idx = [] := by simp [bidx_def]

theorem insertAt_zero (b : Nat) (idx : List Nat) : insertAt 0 b idx = b :: idx := by simp [insertAt]
theorem insertAt_succ (k b c : Nat) (idx : List Nat) : insertAt (k + 1) b (c :: idx) = c :: insertAt k b idx := by
  simp [insertAt]
theorem removeAt_zero (a : Nat) (s : List Nat) : removeAt 0 (a :: s) = s := by simp [removeAt]
theorem removeAt_succ (k a : Nat) (s : List Nat) : removeAt (k + 1) (a :: s) = a :: removeAt k s := by
  simp [removeAt]

theorem removeAt_length (k : Nat) (s : List Nat) (hk : k < s.length) : (removeAt k s).length = s.length - 1 := by
  induction k generalizing s with
  | zero => cases s with
    | nil => simp at hk
    | cons a s => simp [removeAt_zero]
  | succ k ih => cases s with
    | nil => simp at hk
    | cons a s =>
      rw [removeAt_succ]
      simp only [List.length_cons] at hk ⊢
      rw [ih s (by omega)]; omega

/-- fast path, per operand: broadcasting index commutes with inserting the batch index. -/
theorem zip_insertAt (k b : Nat) (s idx : List Nat) (hlen : idx.length + 1 = s.length) (hk : k < s.length)
    (hb : s.getD k 1 = 1 → b = 0) :
    List.zipWith g1 s (insertAt k b idx) = insertAt k b (List.zipWith g1 (removeAt k s) idx) := by
  induction k generalizing s idx with
  | zero =>
    cases s with
    | nil => simp at hk
    | cons a s =>
      simp only [insertAt_zero, removeAt_zero, List.zipWith_cons_cons]
      have : g1 a b = b := by
        unfold g1; split
        · next h => simp [h] at hb; exact hb.symm
        · rfl
      rw [this]
  | succ k ih =>
    cases s with
    | nil => simp at hk
    | cons a s =>
      cases idx with
      | nil => exfalso; simp only [List.length_nil, List.length_cons] at hlen hk; omega
      | cons c idx =>
        simp only [insertAt_succ, removeAt_succ, List.zipWith_cons_cons]
        congr 1
        apply ih
        · simpa using hlen
        · simpa using hk
        · simpa using hb

theorem bidx_insertAt (k b : Nat) (s idx : List Nat) (hlen : idx.length + 1 = s.length) (hk : k < s.length)
    (hb : s.getD k 1 = 1 → b = 0) :
    bidx s (insertAt k b idx) = insertAt k b (bidx (removeAt k s) idx) := by
  rw [bidx_same_len, bidx_same_len, zip_insertAt k b s idx hlen hk hb]
  · rw [removeAt_length k s hk]; omega
  · simp [insertAt]; omega

theorem zip_replicate_one (r : Nat) (idx : List Nat) (h : idx.length = r) :
    List.zipWith g1 (List.replicate r 1) idx = List.replicate r 0 := by
  induction r generalizing idx with
  | zero => simp
  | succ r ih =>
    cases idx with
    | nil => simp at h
    | cons c idx =>
      simp only [List.replicate_succ, List.zipWith_cons_cons, g1, if_true]
      rw [ih idx (by simpa using h)]

/-- unmapped operand of rank ≤ r with a leading 1 inserted, read at `b :: idx`. -/
theorem bidx_leading_one (s idx : List Nat) (b : Nat) (h : s.length ≤ idx.length) :
    (bidx (1 :: s) (b :: idx)).tail = bidx s idx := by
  rw [bidx_def, bidx_def]
  simp only [List.length_cons]
  have e : idx.length + 1 - (s.length + 1) = idx.length - s.length := by omega
  rw [e]
  generalize hn : idx.length - s.length = n
  cases n with
  | zero => simp
  | succ n =>
    rw [List.drop_succ_cons]
    have hlt : n < idx.length := by omega
    rw [List.drop_eq_getElem_cons hlt]
    simp


/-- The operand as `broadcast_batcher_compat` passes it to `bind` on the broadcasting path. -/
def slowArg {α : Type} (ndim : Nat) (p : Tensor α × Option Nat) : Tensor α :=
  handleScalar ndim (if p.1.rank = 0 then p.1 else bdimAtFront p.1 p.2) p.2

/-- `ndim` of the Python code: the largest rank after `bdim_at_front`. -/
def ndimOf {α : Type} (args : List (Tensor α × Option Nat)) : Nat :=
  maxRank (args.map fun p => if p.1.rank = 0 then p.1 else bdimAtFront p.1 p.2)

theorem rank_le_maxRank {α : Type} (xs : List (Tensor α)) (x : Tensor α) (h : x ∈ xs) :
    x.rank ≤ maxRank xs := by
  induction xs with
  | nil => simp at h
  | cons y ys ih =>
    simp only [maxRank]
    rcases List.mem_cons.mp h with rfl | h'
    · exact Nat.le_max_left _ _
    · exact Nat.le_trans (ih h') (Nat.le_max_right _ _)

theorem maxRank_eq_of_all {α : Type} (xs : List (Tensor α)) (n : Nat)
    (hall : ∀ x ∈ xs, x.rank = 0 ∨ x.rank = n) (hex : ∃ x ∈ xs, x.rank = n) : maxRank xs = n := by
  apply Nat.le_antisymm
  · induction xs with
    | nil => simp [maxRank]
    | cons y ys ih =>
      simp only [maxRank]
      apply Nat.max_le.mpr
      constructor
      · rcases hall y (by simp) with h | h <;> omega
      · by_cases hys : ∃ x ∈ ys, x.rank = n
        · exact ih (fun x hx => hall x (by simp [hx])) hys
        · -- all of ys have rank 0 or n; bound directly
          clear ih hex
          induction ys with
          | nil => simp [maxRank]
          | cons z zs ih2 =>
            simp only [maxRank]
            apply Nat.max_le.mpr
            constructor
            · rcases hall z (by simp) with h | h <;> omega
            · apply ih2
              · intro x hx; exact hall x (by
                  rcases List.mem_cons.mp hx with rfl | h
                  · simp
                  · simp [h])
              · intro ⟨x, hx, hr⟩; exact hys ⟨x, by simp [hx], hr⟩
  · obtain ⟨x, hx, hr⟩ := hex
    rw [← hr]; exact rank_le_maxRank xs x hx

theorem firstMapped_mem {α : Type} (args : List (Tensor α × Option Nat)) (shape : List Nat) (dim : Nat)
    (h : firstMapped args = some (shape, dim)) : ∃ x, (x, some dim) ∈ args ∧ x.shape = shape := by
  induction args with
  | nil => simp [firstMapped] at h
  | cons p ps ih =>
    obtain ⟨x, d⟩ := p
    cases d with
    | none =>
      simp only [firstMapped] at h
      obtain ⟨y, hy, hs⟩ := ih h
      exact ⟨y, by simp [hy], hs⟩
    | some k =>
      simp only [firstMapped, Option.some.injEq, Prod.mk.injEq] at h
      exact ⟨x, by simp [h.2], h.1⟩

theorem bdimAtFront_rank_some {α : Type} (x : Tensor α) (k : Nat) (hk : k < x.rank) :
    (bdimAtFront x (some k)).rank = x.rank := by
  simp only [bdimAtFront, Tensor.rank, List.length_cons]
  rw [removeAt_length k x.shape hk]
  simp only [Tensor.rank] at hk; omega

/-- broadcasting path, per operand -/
theorem slow_operand {α : Type} (p : Tensor α × Option Nat) (ndim b B : Nat) (idx : List Nat)
    (hidx : idx.length + 1 = ndim) (hb : b < B)
    (hk : ∀ k, p.2 = some k → k < p.1.rank ∧ p.1.shape.getD k 1 = B)
    (hR : ∀ k, p.2 = some k → p.1.rank = ndim ∨ p.1.rank = 1)
    (hle : p.2 = none → p.1.rank ≠ 0 → p.1.rank + 1 ≤ ndim) :
    (slowArg ndim p).get (bidx (slowArg ndim p).shape (b :: idx)) =
      (lane p.1 p.2 b).get (bidx (lane p.1 p.2 b).shape idx) := by
  obtain ⟨x, d⟩ := p
  dsimp only at hk hR hle ⊢
  cases d with
  | none =>
    simp only [slowArg, handleScalar, true_or, if_true, lane]
    by_cases h0 : x.rank = 0
    · simp only [h0, if_true]
      have : x.shape = [] := List.length_eq_zero_iff.mp h0
      rw [this, bidx_nil, bidx_nil]
    · simp only [h0, if_false, bdimAtFront]
      have hl := hle rfl h0
      rw [bidx_leading_one x.shape idx b (by simp only [Tensor.rank] at hl; omega)]
  | some k =>
    obtain ⟨hkr, hB⟩ := hk k rfl
    have h0 : x.rank ≠ 0 := by omega
    have hfront : (bdimAtFront x (some k)).rank = x.rank := bdimAtFront_rank_some x k hkr
    have hbB : (x.shape.getD k 1 = 1 → b = 0) := by intro h; omega
    have hrem : (removeAt k x.shape).length = x.rank - 1 := removeAt_length k x.shape hkr
    simp only [slowArg, h0, if_false, lane]
    rcases hR k rfl with hfull | hone
    · -- full rank: nothing is expanded
      have : handleScalar ndim (bdimAtFront x (some k)) (some k) = bdimAtFront x (some k) := by
        simp [handleScalar, hfront, hfull]
      rw [this]
      simp only [bdimAtFront]
      have hl : idx.length = (removeAt k x.shape).length := by rw [hrem]; omega
      rw [bidx_same_len _ (b :: idx) (by simp [hl]), bidx_same_len _ idx hl]
      simp only [List.zipWith_cons_cons]
      have : g1 (x.shape.getD k 1) b = b := by
        unfold g1; split
        · next h => exact (hbB h).symm
        · rfl
      rw [this]
    · -- per-example scalar
      have hs' : removeAt k x.shape = [] := List.length_eq_zero_iff.mp (by rw [hrem]; omega)
      by_cases hnd : ndim = x.rank
      · have : handleScalar ndim (bdimAtFront x (some k)) (some k) = bdimAtFront x (some k) := by
          simp [handleScalar, hfront, hnd]
        rw [this]
        simp only [bdimAtFront, hs']
        have hi : idx = [] := List.length_eq_zero_iff.mp (by omega)
        subst hi
        rw [bidx_nil, bidx_same_len _ [b] (by simp)]
        simp only [List.zipWith_cons_cons, List.zipWith_nil_right]
        have : g1 (x.shape.getD k 1) b = b := by
          unfold g1; split
          · next h => exact (hbB h).symm
          · rfl
        rw [this]
      · have : handleScalar ndim (bdimAtFront x (some k)) (some k) =
            expandTrailing ndim (bdimAtFront x (some k)) := by
          simp only [handleScalar, reduceCtorEq, false_or, hfront]
          rw [if_neg hnd]
        rw [this]
        simp only [expandTrailing, bdimAtFront, hs', List.length_cons, List.length_nil]
        rw [bidx_nil]
        have hlen : (b :: idx).length = (x.shape.getD k 1 :: [] ++ List.replicate (ndim - (0 + 1)) 1).length := by
          simp; omega
        rw [bidx_same_len _ _ hlen]
        simp only [List.cons_append, List.nil_append, List.zipWith_cons_cons, List.take_succ_cons,
          List.take_zero]
        have : g1 (x.shape.getD k 1) b = b := by
          unfold g1; split
          · next h => exact (hbB h).symm
          · rfl
        rw [this]


theorem a2_eq {α : Type} (args : List (Tensor α × Option Nat)) :
    ((args.map fun p => if p.1.rank = 0 then p else (bdimAtFront p.1 p.2, p.2)).map
        fun p => handleScalar (maxRank ((args.map fun p => if p.1.rank = 0 then p else (bdimAtFront p.1 p.2, p.2)).map (·.1))) p.1 p.2)
      = args.map (slowArg (ndimOf args)) := by
  have h1 : ((args.map fun p => if p.1.rank = 0 then p else (bdimAtFront p.1 p.2, p.2)).map (·.1))
      = args.map fun p => if p.1.rank = 0 then p.1 else bdimAtFront p.1 p.2 := by
    rw [List.map_map]
    apply List.map_congr_left
    intro p _
    simp only [Function.comp]
    split <;> rfl
  rw [h1, List.map_map]
  apply List.map_congr_left
  intro p _
  simp only [Function.comp, slowArg, ndimOf]
  split <;> rfl

/-- **Correctness of the generic broadcast batcher.**  For a pointwise primitive `f` of any arity
    (`args.length ≥ 2` is forced by the code), any placement of the batch dimensions, unmapped
    operands of any rank and scalars: lane `b` of the batched result equals `f` bound to lane `b`
    of every operand — provided every *mapped* operand has full rank or is a per-example scalar
    (`hR`; see `broadcast_batcher_lower_rank_refuted` for why this hypothesis is necessary). -/
theorem broadcast_batcher_correct_aux {α : Type} (f : List α → α) (args : List (Tensor α × Option Nat))
    (B b : Nat) (hb : b < B)
    (hwf : ∀ p ∈ args, ∀ k, p.2 = some k → k < p.1.rank ∧ p.1.shape.getD k 1 = B)
    (hR : ∀ p ∈ args, ∀ k, p.2 = some k → p.1.rank = ndimOf args ∨ p.1.rank = 1)
    (out : Tensor α) (od : Nat) (hrun : broadcastBatcher f args = some (out, od))
    (idx : List Nat) (hidx : idx.length + 1 = ndimOf args) :
    (lane out (some od) b).get idx =
      (bindPointwise f (args.map fun p => lane p.1 p.2 b)).get idx := by
  unfold broadcastBatcher at hrun
  split at hrun
  · exact absurd hrun (by simp)
  · cases hfm : firstMapped args with
    | none => rw [hfm] at hrun; exact absurd hrun (by simp)
    | some sd =>
      obtain ⟨shape, dim⟩ := sd
      rw [hfm] at hrun
      dsimp only at hrun
      obtain ⟨x0, hx0, hs0⟩ := firstMapped_mem args shape dim hfm
      obtain ⟨hk0, hB0⟩ := hwf _ hx0 dim rfl
      dsimp only at hk0 hB0
      split at hrun
      · next hall =>
        -- agreeing batch dimensions (and scalars): the primitive is bound directly
        simp only [Option.some.injEq, Prod.mk.injEq] at hrun
        obtain ⟨rfl, rfl⟩ := hrun
        have hall' : ∀ p ∈ args, p.1.rank = 0 ∨ (p.1.shape = shape ∧ p.2 = some dim) := by
          intro p hp
          have := List.all_eq_true.mp hall p hp
          simp only [Bool.or_eq_true, beq_iff_eq, Bool.and_eq_true] at this
          exact this
        have hnd : ndimOf args = shape.length := by
          apply maxRank_eq_of_all
          · intro t ht
            obtain ⟨p, hp, rfl⟩ := List.mem_map.mp ht
            rcases hall' p hp with h0 | ⟨hs, hd⟩
            · left; simp [h0]
            · right
              have hkp := (hwf p hp dim hd).1
              have : p.1.rank ≠ 0 := by omega
              simp only [this, if_false, hd]
              rw [bdimAtFront_rank_some p.1 dim hkp, Tensor.rank, hs]
          · refine ⟨bdimAtFront x0 (some dim), ?_, ?_⟩
            · apply List.mem_map.mpr
              refine ⟨(x0, some dim), hx0, ?_⟩
              have : x0.rank ≠ 0 := by omega
              simp [this]
            · rw [bdimAtFront_rank_some x0 dim hk0, Tensor.rank, hs0]
        simp only [lane, bindPointwise, List.map_map]
        congr 1
        apply List.map_congr_left
        intro p hp
        simp only [Function.comp]
        rcases hall' p hp with h0 | ⟨hs, hd⟩
        · have hnone : p.2 = none := by
            cases hd : p.2 with
            | none => rfl
            | some k => have := (hwf p hp k hd).1; omega
          have hsh : p.1.shape = [] := List.length_eq_zero_iff.mp h0
          simp only [hnone, hsh, bidx_nil]
        · obtain ⟨hkp, hBp⟩ := hwf p hp dim hd
          simp only [hd]
          rw [bidx_insertAt dim b p.1.shape idx (by rw [hs]; omega) hkp (by intro h; omega)]
      · next hnall =>
        simp only [Option.some.injEq, Prod.mk.injEq] at hrun
        obtain ⟨rfl, rfl⟩ := hrun
        rw [a2_eq]
        simp only [lane, insertAt_zero, bindPointwise, List.map_map]
        congr 1
        apply List.map_congr_left
        intro p hp
        simp only [Function.comp]
        apply slow_operand p (ndimOf args) b B idx hidx hb (hwf p hp) (hR p hp)
        intro hnone h0
        have hmem : bdimAtFront p.1 p.2 ∈ args.map fun p => if p.1.rank = 0 then p.1 else bdimAtFront p.1 p.2 := by
          apply List.mem_map.mpr
          exact ⟨p, hp, by simp [h0]⟩
        have := rank_le_maxRank _ _ hmem
        simp only [hnone, bdimAtFront, Tensor.rank, List.length_cons] at this
        exact this


end J2O.C10
