/-
A concrete keepdims reduction on the tensor model (sum over one axis by a commutative monoid,
axes one after the other) and its commutation with Transpose: the `reduce_transpose` field of
`C02.Laws` is a theorem for it (exact arithmetic: float re-association is not modelled).
-/
import Mathlib.Algebra.BigOperators.Group.Finset.Sigma
import J2O.Lemmas.Tensor
import J2O.Model.C02

namespace J2O
open Finset

variable {α : Type} [AddCommMonoid α]

/-- index function `i` with position `a` replaced by `j` -/
def upd (i : Nat → Nat) (a j : Nat) : Nat → Nat := fun k => if k = a then j else i k

/-- keepdims reduction of ONE axis by the monoid operation: extent 1 on that axis, every element
    the sum over the axis -/
def sumAxis (a : Nat) (t : Tensor α) : Tensor α :=
  { t with dim := fun k => if k = a then 1 else t.dim k,
           get := fun i => ∑ j ∈ range (t.dim a), t.get (upd i a j) }

/-- keepdims reduction over a list of axes, one after the other -/
def sumAxes (axes : List Nat) (t : Tensor α) : Tensor α := axes.foldl (fun acc a => sumAxis a acc) t

theorem permFn_inj {p : List Nat} (hp : validPerm p = true) {a b : Nat}
    (h : permFn p a = permFn p b) : a = b := by
  have := congrArg (invFn p) h
  simpa [invFn_permFn hp] using this

theorem sumAxis_transpose (p : List Nat) (hp : validPerm p = true) (a : Nat) (t : Tensor α) :
    sumAxis a (transpose p t) = transpose p (sumAxis (permFn p a) t) := by
  apply Tensor.ext'
  · rfl
  · rfl
  · funext k
    simp only [sumAxis, transpose]
    by_cases hk : k = a
    · simp [hk]
    · have : permFn p k ≠ permFn p a := fun h => hk (permFn_inj hp h)
      simp [hk, this]
  · funext i
    simp only [sumAxis, transpose]
    apply Finset.sum_congr rfl
    intro j _
    congr 1
    funext m
    simp only [upd]
    by_cases hm : m = permFn p a
    · simp [hm, invFn_permFn hp]
    · have : invFn p m ≠ a := by
        intro h
        apply hm
        rw [← h, permFn_invFn hp]
      simp [hm, this]

theorem sumAxes_transpose (p : List Nat) (hp : validPerm p = true) (axes : List Nat) :
    ∀ t : Tensor α, sumAxes axes (transpose p t) = transpose p (sumAxes (axes.map (permFn p)) t) := by
  induction axes with
  | nil => intro t; rfl
  | cons a as ih =>
    intro t
    simp only [sumAxes, List.foldl_cons, List.map_cons] at ih ⊢
    rw [sumAxis_transpose p hp a t]
    exact ih _

theorem upd_comm (i : Nat → Nat) {a b : Nat} (h : a ≠ b) (j k : Nat) :
    upd (upd i a j) b k = upd (upd i b k) a j := by
  funext m
  simp only [upd]
  by_cases h1 : m = a <;> by_cases h2 : m = b
  · exact absurd (h1.symm.trans h2) h
  · subst h1; simp [h]
  · subst h2; simp [Ne.symm h]
  · simp [h1, h2]

theorem sumAxis_comm (a b : Nat) (t : Tensor α) :
    sumAxis b (sumAxis a t) = sumAxis a (sumAxis b t) := by
  by_cases hab : a = b
  · rw [hab]
  · have hba : b ≠ a := fun h => hab h.symm
    apply Tensor.ext'
    · rfl
    · rfl
    · funext k
      simp only [sumAxis]
      by_cases h1 : k = a <;> by_cases h2 : k = b <;> simp [h1, h2]
    · funext i
      simp only [sumAxis, hab, hba, if_false]
      rw [Finset.sum_comm]
      apply Finset.sum_congr rfl
      intro j _
      apply Finset.sum_congr rfl
      intro k _
      rw [upd_comm i hba]

theorem sumAxes_perm {l1 l2 : List Nat} (h : l1.Perm l2) (t : Tensor α) :
    sumAxes l1 t = sumAxes l2 t :=
  h.foldl_eq' (fun x _ y _ z => sumAxis_comm x y z) t

/-- **A keepdims reduction commutes with a transpose when its axes are mapped through the
    permutation** — the `reduce_transpose` field of `C02.Laws`, proved for the reduction by any
    commutative monoid (sum, product, max/min with a neutral element, and/or), all tensors, all
    ranks, all valid permutations, all axis lists. -/
theorem sumAxes_transpose_sorted (p : List Nat) (hp : validPerm p = true) (axes : List Nat)
    (t : Tensor α) :
    sumAxes axes (transpose p t) =
      transpose p (sumAxes (C02.sortNat (axes.map (permFn p))) t) := by
  rw [sumAxes_transpose p hp axes t]
  congr 1
  exact sumAxes_perm (List.mergeSort_perm _ _).symm t

end J2O
