/-
C13 — helper lemmas for Props/C13.lean: algebra of the own / `_PATCH_STATE` tables, the
bracket lemmas for the two entry/unwind loop pairs (code after fix 21b5229).
-/
import J2O.Model.C13
set_option linter.unusedSimpArgs false
set_option linter.unusedVariables false

namespace J2O.C13

theorem setOwn_setOwn (o : Own) (t : Tgt) (a : Attr) (v w : Option Val) :
    setOwn (setOwn o t a v) t a w = setOwn o t a w := by
  funext t' a'
  simp only [setOwn]
  split <;> rfl

theorem setOwn_self (o : Own) (t : Tgt) (a : Attr) : setOwn o t a (o t a) = o := by
  funext t' a'
  simp only [setOwn]
  split
  · rename_i h; rw [h.1, h.2]
  · rfl

theorem setPS_setPS (p : PS) (t : Tgt) (a : Attr) (v w : Option (Val × Option Val × Nat)) :
    setPS (setPS p t a v) t a w = setPS p t a w := by
  funext t' a'
  simp only [setPS]
  split <;> rfl

theorem setPS_self (p : PS) (t : Tgt) (a : Attr) : setPS p t a (p t a) = p := by
  funext t' a'
  simp only [setPS]
  split
  · rename_i h; rw [h.1, h.2]
  · rfl

theorem setPS_get (p : PS) (t : Tgt) (a : Attr) (v : Option (Val × Option Val × Nat)) :
    setPS p t a v t a = v := by
  simp [setPS]

theorem setOwn_get (o : Own) (t : Tgt) (a : Attr) (v : Option Val) : setOwn o t a v t a = v := by
  simp [setOwn]

/-- putting back what the target itself held restores the own table exactly — for EVERY key
    (own, inherited, provided by nothing, descriptor or not) -/
theorem restore_own (o : Own) (t : Tgt) (a : Attr) (new : Option Val) :
    setOwn (setOwn o t a new) t a (o t a) = o := by
  rw [setOwn_setOwn, setOwn_self]

/-- **bracket lemma for apply_patches**: unwinding what the entry loop applied (in reverse
    order) from the world it produced leads to the same table as unwinding the older entries
    from the world before — for every spec list, every fault position, every accumulator. -/
theorem enter_unwind (H : Hier) : ∀ (specs : List Spec) (o : Own)
    (acc : List (Tgt × Attr × Option Val)),
    unwind (enter H o specs acc).own (enter H o specs acc).applied = unwind o acc := by
  intro specs
  induction specs with
  | nil => intro o acc; simp [enter]
  | cons s rest ih =>
    intro o acc
    by_cases hf : s.faults = true
    · simp [enter, hf]
    · have hf' : s.faults = false := by simpa using hf
      simp only [enter, hf', Bool.false_eq_true, ↓reduceIte]
      rw [ih]
      simp only [unwind]
      rw [restore_own]

theorem PSwf_setPS (p : PS) (t : Tgt) (a : Attr) (orig : Val) (own : Option Val) (c : Nat)
    (h : PSwf p) (hc : 1 ≤ c) : PSwf (setPS p t a (some (orig, own, c))) := by
  intro t' a' o' w' c' he
  simp only [setPS] at he
  split at he
  · simp only [Option.some.injEq, Prod.mk.injEq] at he
    omega
  · exact h t' a' o' w' c' he

/-- the entry loop keeps `_PATCH_STATE` well formed -/
theorem menter_wf (H : Hier) : ∀ (sites : List Site) (st : St) (fs : List Fault)
    (acc : List (Tgt × Attr)), PSwf st.ps → PSwf (menter H st sites fs acc).st.ps := by
  intro sites
  induction sites with
  | nil => intro st fs acc h; simpa [menter] using h
  | cons s rest ih =>
    intro st fs acc h
    simp only [menter]
    split
    · rename_i orig own c hps
      exact ih _ _ _ (PSwf_setPS _ _ _ _ _ _ h (by omega))
    · split
      · exact h
      · split
        · exact ih _ _ _ (PSwf_setPS _ _ _ _ _ _ h (by omega))
        · exact h

theorem st_eq (a b : St) (h1 : a.own = b.own) (h2 : a.ps = b.ps) : a = b := by
  cases a; cases b; simp_all

/-- **bracket lemma for apply_monkey_patches**: whether the entry loop completed or raised
    half way, running the exit loop over what it touched leads back to where the older entries are
    unwound from the state before — reference counts included. -/
theorem menter_mexit (H : Hier) : ∀ (sites : List Site) (st : St)
    (fs : List Fault) (acc : List (Tgt × Attr)), PSwf st.ps →
    mexit (menter H st sites fs acc).st (menter H st sites fs acc).touched = mexit st acc := by
  intro sites
  induction sites with
  | nil => intro st fs acc _; simp [menter]
  | cons s rest ih =>
    intro st fs acc hwf
    simp only [menter]
    split
    · -- already patched: count + 1 on entry, count - 1 on exit
      rename_i orig own c hps
      have hc : 1 ≤ c := hwf _ _ _ _ _ hps
      rw [ih _ _ _ (PSwf_setPS _ _ _ _ _ _ hwf (by omega))]
      simp only [mexit, setPS_get]
      have hc' : ¬ (c + 1 - 1 = 0) := by omega
      simp only [hc', if_false, setPS_setPS]
      have e1 : c + 1 - 1 = c := by omega
      rw [e1, ← hps, setPS_self]
    · rename_i hps
      split
      · rfl
      · rename_i orig hl
        split
        · rw [ih _ _ _ (PSwf_setPS _ _ _ _ _ _ hwf (by omega))]
          simp only [mexit, setPS_get]
          simp only [Nat.sub_self, if_true, setPS_setPS]
          rw [restore_own, ← hps, setPS_self]
        · rfl

end J2O.C13
