/-
C13 — helper lemmas for Props/C13.lean: algebra of the own / `_PATCH_STATE` tables, the
bracket lemmas for the two entry/unwind loop pairs.
-/
import J2O.Model.C13
set_option linter.unusedSimpArgs false
set_option linter.unusedVariables false

namespace J2O.C13

theorem setOwn_setOwn (o : Own) (t : Tgt) (a : Attr) (v w : Option Val) :
    setOwn (setOwn o t a v) t a w = setOwn o t a w := by
  funext t' a'
  simp only [setOwn]
  split <;> rfl

theorem setOwn_self (o : Own) (t : Tgt) (a : Attr) : setOwn o t a (o t a) = o := by
  funext t' a'
  simp only [setOwn]
  split
  · rename_i h; rw [h.1, h.2]
  · rfl

theorem setPS_setPS (p : PS) (t : Tgt) (a : Attr) (v w : Option (Val × Nat)) :
    setPS (setPS p t a v) t a w = setPS p t a w := by
  funext t' a'
  simp only [setPS]
  split <;> rfl

theorem setPS_self (p : PS) (t : Tgt) (a : Attr) : setPS p t a (p t a) = p := by
  funext t' a'
  simp only [setPS]
  split
  · rename_i h; rw [h.1, h.2]
  · rfl

theorem setPS_get (p : PS) (t : Tgt) (a : Attr) (v : Option (Val × Nat)) : setPS p t a v t a = v := by
  simp [setPS]

theorem setOwn_get (o : Own) (t : Tgt) (a : Attr) (v : Option Val) : setOwn o t a v t a = v := by
  simp [setOwn]

/-- restoring a good key with the value `getattr` returned before the patch gives back the
    own table exactly -/
theorem restore_good (H : Hier) (hH : H.SelfFirst) (o : Own) (t : Tgt) (a : Attr) (new : Val)
    (allow : Bool) (hg : goodKey H o t a allow = true) :
    setOwn (setOwn o t a (some new)) t a (lookup H o t a) = o := by
  rw [setOwn_setOwn]
  obtain ⟨rest, hm⟩ := hH t
  unfold goodKey at hg
  unfold lookup
  rw [hm]
  simp only [firstOwn]
  cases ho : o t a with
  | some v =>
    rw [ho] at hg
    simp only [decide_eq_true_eq] at hg
    simp only [Option.map, hg]
    rw [← ho]
    exact setOwn_self o t a
  | none =>
    rw [ho] at hg
    simp only [Bool.and_eq_true] at hg
    rw [hm] at hg
    simp only [firstOwn, ho] at hg
    have : firstOwn o a rest = none := by
      cases h : firstOwn o a rest with
      | none => rfl
      | some x => rw [h] at hg; simp at hg
    rw [this]
    simp only [Option.map]
    rw [← ho]
    exact setOwn_self o t a

/-- the monitor of `enter` only ever goes from true to false -/
theorem enter_good_mono (H : Hier) : ∀ (specs : List Spec) (o : Own) (acc : List (Tgt × Attr × Option Val))
    (g : Bool), (enter H o specs acc g).good = true → g = true := by
  intro specs
  induction specs with
  | nil => intro o acc g h; simpa [enter] using h
  | cons s rest ih =>
    intro o acc g h
    by_cases hf : s.faults = true
    · simpa [enter, hf] using h
    · have hf' : s.faults = false := by simpa using hf
      simp only [enter, hf', Bool.false_eq_true, ↓reduceIte] at h
      have := ih _ _ _ h
      simp only [Bool.and_eq_true] at this
      exact this.1.1

/-- **bracket lemma for apply_patches**: unwinding what the entry loop applied (in reverse
    order) from the world it produced leads to the same table as unwinding the older entries
    from the world before — for every spec list, fault position and accumulator. -/
theorem enter_unwind (H : Hier) (hH : H.SelfFirst) : ∀ (specs : List Spec) (o : Own)
    (acc : List (Tgt × Attr × Option Val)) (g : Bool),
    (enter H o specs acc g).good = true →
    unwind (enter H o specs acc g).own (enter H o specs acc g).applied = unwind o acc := by
  intro specs
  induction specs with
  | nil => intro o acc g _; simp [enter]
  | cons s rest ih =>
    intro o acc g h
    by_cases hf : s.faults = true
    · simp [enter, hf]
    · have hf' : s.faults = false := by simpa using hf
      simp only [enter, hf', Bool.false_eq_true, ↓reduceIte] at h ⊢
      have hg := enter_good_mono H _ _ _ _ h
      simp only [Bool.and_eq_true] at hg
      rw [ih _ _ _ h]
      simp only [unwind]
      rw [restore_good H hH o s.tgt s.attr _ true hg.1.2]

theorem menter_good_mono (H : Hier) : ∀ (sites : List Site) (st : St) (fs : List Fault)
    (acc : List (Tgt × Attr)) (g : Bool), (menter H st sites fs acc g).good = true → g = true := by
  intro sites
  induction sites with
  | nil => intro st fs acc g h; simpa [menter] using h
  | cons s rest ih =>
    intro st fs acc g h
    simp only [menter] at h
    split at h
    · have := ih _ _ _ _ h
      simp only [Bool.and_eq_true] at this
      exact this.1
    · split at h
      · exact h
      · split at h
        · have := ih _ _ _ _ h
          simp only [Bool.and_eq_true] at this
          exact this.1
        · exact h

theorem st_eq (a b : St) (h1 : a.own = b.own) (h2 : a.ps = b.ps) : a = b := by
  cases a; cases b; simp_all

/-- **bracket lemma for apply_monkey_patches**: if the entry loop completed, running the exit
    loop over what it touched leads back to where the older entries are unwound from the state
    before — reference counts included. -/
theorem menter_mexit (H : Hier) (hH : H.SelfFirst) : ∀ (sites : List Site) (st : St)
    (fs : List Fault) (acc : List (Tgt × Attr)) (g : Bool),
    (menter H st sites fs acc g).good = true → (menter H st sites fs acc g).raised = false →
    mexit (menter H st sites fs acc g).st (menter H st sites fs acc g).touched = mexit st acc := by
  intro sites
  induction sites with
  | nil => intro st fs acc g _ _; simp [menter]
  | cons s rest ih =>
    intro st fs acc g h hr
    simp only [menter] at h hr ⊢
    split
    · -- already patched: count + 1 on entry, count - 1 on exit
      rename_i orig c hps
      simp only [hps] at h hr
      have hg := menter_good_mono H _ _ _ _ _ h
      simp only [Bool.and_eq_true, decide_eq_true_eq] at hg
      rw [ih _ _ _ _ h hr]
      simp only [mexit, setPS_get]
      have hc : ¬ (c + 1 - 1 = 0) := by omega
      simp only [hc, if_false, setPS_setPS]
      have e1 : c + 1 - 1 = c := by omega
      rw [e1, ← hps, setPS_self]
    · rename_i hps
      simp only [hps] at h hr
      split
      · -- getattr raised: excluded by `raised = false`
        rename_i hl
        simp only [hl] at hr
        exact absurd hr (by simp)
      · rename_i orig hl
        simp only [hl] at h hr
        split
        · rename_i hf
          simp only [hf, if_true] at h hr
          have hg := menter_good_mono H _ _ _ _ _ h
          simp only [Bool.and_eq_true] at hg
          rw [ih _ _ _ _ h hr]
          simp only [mexit, setPS_get]
          simp only [Nat.sub_self, if_true, setPS_setPS]
          have hrest := restore_good H hH st.own s.tgt s.attr (.wrap s.k orig) false hg.2
          rw [hl] at hrest
          rw [hrest, ← hps, setPS_self]
        · rename_i hf
          simp only [hf, if_false] at hr
          exact absurd hr (by simp)

end J2O.C13
