/-
C13 — helper lemmas for Props/C13.lean: algebra of the own / `_PATCH_STATE` tables, the
bracket lemmas for the two entry/unwind loop pairs.
-/
import J2O.Model.C13
set_option linter.unusedSimpArgs false
set_option linter.unusedVariables false

namespace J2O.C13

theorem setOwn_setOwn (o : Own) (t : Tgt) (a : Attr) (v w : Option Val) :
    setOwn (setOwn o t a v) t a w = setOwn o t a w := by
  funext t' a'
  simp only [setOwn]
  split <;> rfl

theorem setOwn_self (o : Own) (t : Tgt) (a : Attr) : setOwn o t a (o t a) = o := by
  funext t' a'
  simp only [setOwn]
  split
  · rename_i h; rw [h.1, h.2]
  · rfl

theorem setPS_setPS (p : PS) (t : Tgt) (a : Attr) (v w : Option (Val × Nat)) :
    setPS (setPS p t a v) t a w = setPS p t a w := by
  funext t' a'
  simp only [setPS]
  split <;> rfl

theorem setPS_self (p : PS) (t : Tgt) (a : Attr) : setPS p t a (p t a) = p := by
  funext t' a'
  simp only [setPS]
  split
  · rename_i h; rw [h.1, h.2]
  · rfl

theorem setPS_get (p : PS) (t : Tgt) (a : Attr) (v : Option (Val × Nat)) : setPS p t a v t a = v := by
  simp [setPS]

theorem setOwn_get (o : Own) (t : Tgt) (a : Attr) (v : Option Val) : setOwn o t a v t a = v := by
  simp [setOwn]

/-- restoring a good key with the value `getattr` returned before the patch gives back the
    own table exactly -/
theorem restore_good (H : Hier) (hH : H.SelfFirst) (o : Own) (t : Tgt) (a : Attr) (new : Val)
    (allow : Bool) (hg : goodKey H o t a allow = true) :
    setOwn (setOwn o t a (some new)) t a (lookup H o t a) = o := by
  rw [setOwn_setOwn]
  obtain ⟨rest, hm⟩ := hH t
  unfold goodKey at hg
  unfold lookup
  rw [hm]
  simp only [firstOwn]
  cases ho : o t a with
  | some v =>
    rw [ho] at hg
    simp only [decide_eq_true_eq] at hg
    simp only [Option.map, hg]
    rw [← ho]
    exact setOwn_self o t a
  | none =>
    rw [ho] at hg
    simp only [Bool.and_eq_true] at hg
    rw [hm] at hg
    simp only [firstOwn, ho] at hg
    have : firstOwn o a rest = none := by
      cases h : firstOwn o a rest with
      | none => rfl
      | some x => rw [h] at hg; simp at hg
    rw [this]
    simp only [Option.map]
    rw [← ho]
    exact setOwn_self o t a

/-- the monitor of `enter` only ever goes from true to false -/
theorem enter_good_mono (H : Hier) : ∀ (specs : List Spec) (o : Own) (acc : List (Tgt × Attr × Option Val))
    (g : Bool), (enter H o specs acc g).good = true → g = true := by
  intro specs
  induction specs with
  | nil => intro o acc g h; simpa [enter] using h
  | cons s rest ih =>
    intro o acc g h
    by_cases hf : s.faults = true
    · simpa [enter, hf] using h
    · have hf' : s.faults = false := by simpa using hf
      simp only [enter, hf', Bool.false_eq_true, ↓reduceIte] at h
      have := ih _ _ _ h
      simp only [Bool.and_eq_true] at this
      exact this.1.1

/-- **bracket lemma for apply_patches**: unwinding what the entry loop applied (in reverse
    order) from the world it produced leads to the same table as unwinding the older entries
    from the world before — for every spec list, fault position and accumulator. -/
theorem enter_unwind (H : Hier) (hH : H.SelfFirst) : ∀ (specs : List Spec) (o : Own)
    (acc : List (Tgt × Attr × Option Val)) (g : Bool),
    (enter H o specs acc g).good = true →
    unwind (enter H o specs acc g).own (enter H o specs acc g).applied = unwind o acc := by
  intro specs
  induction specs with
  | nil => intro o acc g _; simp [enter]
  | cons s rest ih =>
    intro o acc g h
    by_cases hf : s.faults = true
    · simp [enter, hf]
    · have hf' : s.faults = false := by simpa using hf
      simp only [enter, hf', Bool.false_eq_true, ↓reduceIte] at h ⊢
      have hg := enter_good_mono H _ _ _ _ h
      simp only [Bool.and_eq_true] at hg
      rw [ih _ _ _ h]
      simp only [unwind]
      rw [restore_good H hH o s.tgt s.attr _ true hg.1.2]

theorem menter_good_mono (H : Hier) : ∀ (sites : List Site) (st : St) (fs : List Fault)
    (acc : List (Tgt × Attr)) (g : Bool), (menter H st sites fs acc g).good = true → g = true := by
  intro sites
  induction sites with
  | nil => intro st fs acc g h; simpa [menter] using h
  | cons s rest ih =>
    intro st fs acc g h
    simp only [menter] at h
    split at h
    · have := ih _ _ _ _ h
      simp only [Bool.and_eq_true] at this
      exact this.1
    · split at h
      · exact h
      · split at h
        · have := ih _ _ _ _ h
          simp only [Bool.and_eq_true] at this
          exact this.1
        · exact h

theorem st_eq (a b : St) (h1 : a.own = b.own) (h2 : a.ps = b.ps) : a = b := by
  cases a; cases b; simp_all

/-- **bracket lemma for apply_monkey_patches**: if the entry loop completed, running the exit
    loop over what it touched leads back to where the older entries are unwound from the state
    before — reference counts included. -/
theorem menter_mexit (H : Hier) (hH : H.SelfFirst) : ∀ (sites : List Site) (st : St)
    (fs : List Fault) (acc : List (Tgt × Attr)) (g : Bool),
    (menter H st sites fs acc g).good = true → (menter H st sites fs acc g).raised = false →
    mexit (menter H st sites fs acc g).st (menter H st sites fs acc g).touched = mexit st acc := by
  intro sites
  induction sites with
  | nil => intro st fs acc g _ _; simp [menter]
  | cons s rest ih =>
    intro st fs acc g h hr
    simp only [menter] at h hr ⊢
    split
    · -- already patched: count + 1 on entry, count - 1 on exit
      rename_i orig c hps
      simp only [hps] at h hr
      have hg := menter_good_mono H _ _ _ _ _ h
      simp only [Bool.and_eq_true, decide_eq_true_eq] at hg
      rw [ih _ _ _ _ h hr]
      simp only [mexit, setPS_get]
      have hc : ¬ (c + 1 - 1 = 0) := by omega
      simp only [hc, if_false, setPS_setPS]
      have e1 : c + 1 - 1 = c := by omega
      rw [e1, ← hps, setPS_self]
    · rename_i hps
      simp only [hps] at h hr
      split
      · -- getattr raised: excluded by `raised = false`
        rename_i hl
        simp only [hl] at hr
        exact absurd hr (by simp)
      · rename_i orig hl
        simp only [hl] at h hr
        split
        · rename_i hf
          simp only [hf, if_true] at h hr
          have hg := menter_good_mono H _ _ _ _ _ h
          simp only [Bool.and_eq_true] at hg
          rw [ih _ _ _ _ h hr]
          simp only [mexit, setPS_get]
          simp only [Nat.sub_self, if_true, setPS_setPS]
          have hrest := restore_good H hH st.own s.tgt s.attr (.wrap s.k orig) false hg.2
          rw [hl] at hrest
          rw [hrest, ← hps, setPS_self]
        · rename_i hf
          simp only [hf, if_false] at hr
          exact absurd hr (by simp)

end J2O.C13

namespace J2O.C13

/-! ### own copies of inherited attributes (the benign case outside `goodKey`) -/

/-- single-inheritance-like hierarchies: the MRO of every class on the MRO of `s` is the tail of
    the MRO of `s` from that class on (true for every hierarchy without diamonds) -/
def Hier.Linear (H : Hier) : Prop :=
  ∀ s t, t ∈ H.mro s → ∃ pre, H.mro s = pre ++ H.mro t ∧ t ∉ pre

theorem firstOwn_setOwn_other_attr (o : Own) (t : Tgt) (a a' : Attr) (v : Option Val) (h : a' ≠ a) :
    ∀ l, firstOwn (setOwn o t a v) a' l = firstOwn o a' l := by
  intro l
  induction l with
  | nil => rfl
  | cons x xs ih =>
    simp only [firstOwn, setOwn]
    have : ¬ (x = t ∧ a' = a) := fun hh => h hh.2
    simp only [this, if_false, ih]

theorem firstOwn_setOwn_not_mem (o : Own) (t : Tgt) (a : Attr) (v : Option Val) :
    ∀ l, t ∉ l → firstOwn (setOwn o t a v) a l = firstOwn o a l := by
  intro l
  induction l with
  | nil => intro _; rfl
  | cons x xs ih =>
    intro h
    simp only [List.mem_cons, not_or] at h
    have hx : x ≠ t := fun hh => h.1 hh.symm
    simp only [firstOwn, setOwn, hx, false_and, if_false, ih h.2]

theorem firstOwn_append (o : Own) (a : Attr) (l₁ l₂ : List Tgt) :
    firstOwn o a (l₁ ++ l₂) = (firstOwn o a l₁).orElse (fun _ => firstOwn o a l₂) := by
  induction l₁ with
  | nil => simp [firstOwn]
  | cons x xs ih =>
    simp only [List.cons_append, firstOwn]
    cases o x a with
    | some v => simp
    | none => simpa using ih

/-- **An own copy of an inherited attribute is invisible** to `getattr` on every target, in a
    hierarchy without diamonds. -/
theorem ownCopy_invisible (H : Hier) (hH : H.SelfFirst) (hL : H.Linear) (o : Own) (t : Tgt) (a : Attr)
    (v : Val) (hnone : o t a = none) (hv : firstOwn o a (H.mro t) = some v) (s : Tgt) (a' : Attr) :
    lookup H (setOwn o t a (some v)) s a' = lookup H o s a' := by
  unfold lookup
  by_cases ha : a' = a
  · subst ha
    by_cases hm : t ∈ H.mro s
    · obtain ⟨pre, hpre, hnot⟩ := hL s t hm
      rw [hpre, firstOwn_append, firstOwn_append, firstOwn_setOwn_not_mem o t a' _ pre hnot]
      obtain ⟨rest, hr⟩ := hH t
      have h1 : firstOwn (setOwn o t a' (some v)) a' (H.mro t) = some v := by
        rw [hr]; simp [firstOwn, setOwn]
      rw [h1, hv]
    · rw [firstOwn_setOwn_not_mem o t a' _ _ hm]
  · rw [firstOwn_setOwn_other_attr o t a a' _ ha]

end J2O.C13
