/-
Helper lemmas for C17: representability in a binary floating-point format,
over ℚ.  (Single Mathlib modules only.)
-/
import Mathlib.Algebra.Order.GroupWithZero.Basic
import Mathlib.Algebra.Order.Field.Rat
import Mathlib.Tactic.Linarith
import Mathlib.Tactic.Ring
import Mathlib.Tactic.NormNum
import J2O.Model.C17

namespace J2O.C17

/-- Largest finite value of the format: `2^(emax+1) - 2^(emax-p+1)`. -/
def maxFin (f : FloatFmt) : ℚ := (2:ℚ)^(f.emax+1) - (2:ℚ)^(f.emax - f.p + 1)

/-- `x` is a finite value of format `f`: `m·2^e` with `|m| < 2^p`, `e ≥ emin`,
    magnitude at most the largest finite value.  (Normal and subnormal numbers;
    this set is closed under the choices of `(m,e)` a concrete encoding makes.) -/
def Rep (f : FloatFmt) (x : ℚ) : Prop :=
  ∃ m e : ℤ, |(m:ℚ)| < (2:ℚ)^f.p ∧ f.emin ≤ e ∧ x = m * (2:ℚ)^e ∧ |x| ≤ maxFin f

theorem two_zpow_pos (k : ℤ) : (0:ℚ) < (2:ℚ)^k := zpow_pos (by norm_num) _

theorem two_zpow_mono {a b : ℤ} (h : a ≤ b) : (2:ℚ)^a ≤ (2:ℚ)^b :=
  zpow_le_zpow_right₀ (by norm_num) h

theorem maxFin_eq (f : FloatFmt) :
    maxFin f = (2:ℚ)^(f.emax+1) * (1 - (2:ℚ)^(-f.p)) := by
  unfold maxFin
  rw [mul_sub, mul_one, ← zpow_add₀ (by norm_num : (2:ℚ) ≠ 0)]
  congr 2; ring

theorem maxFin_mono (s t : FloatFmt) (h1 : s.p ≤ t.p) (h3 : s.emax ≤ t.emax)
    (hp : 0 ≤ s.p) : maxFin s ≤ maxFin t := by
  rw [maxFin_eq, maxFin_eq]
  have a1 : (2:ℚ)^(s.emax+1) ≤ (2:ℚ)^(t.emax+1) := two_zpow_mono (by omega)
  have a2 : (2:ℚ)^(-t.p) ≤ (2:ℚ)^(-s.p) := two_zpow_mono (by omega)
  have a3 : (2:ℚ)^(-s.p) ≤ 1 := by
    have := two_zpow_mono (show -s.p ≤ 0 by omega)
    simpa using this
  have pos : (0:ℚ) < (2:ℚ)^(s.emax+1) := two_zpow_pos _
  apply mul_le_mul a1 (by linarith) (by linarith) (le_trans pos.le a1)

theorem fitsFF_rep (s t : FloatFmt) (h1 : s.p ≤ t.p) (h2 : t.emin ≤ s.emin)
    (h3 : s.emax ≤ t.emax) (hp : 0 ≤ s.p) (x : ℚ) (hx : Rep s x) : Rep t x := by
  obtain ⟨m, e, hm, he, hxe, hmax⟩ := hx
  refine ⟨m, e, ?_, ?_, hxe, le_trans hmax (maxFin_mono s t h1 h3 hp)⟩
  · exact lt_of_lt_of_le hm (two_zpow_mono h1)
  · exact le_trans h2 he

/-- `2^emax ≤ maxFin` as soon as there is one precision bit. -/
theorem pow_emax_le_maxFin (f : FloatFmt) (hp : 1 ≤ f.p) : (2:ℚ)^f.emax ≤ maxFin f := by
  unfold maxFin
  have h1 : (2:ℚ)^(f.emax - f.p + 1) ≤ (2:ℚ)^f.emax := two_zpow_mono (by omega)
  have h2 : (2:ℚ)^(f.emax + 1) = 2 * (2:ℚ)^f.emax := by
    rw [zpow_add₀ (by norm_num : (2:ℚ) ≠ 0)]; ring
  rw [h2]; linarith [two_zpow_pos f.emax]

/-- `2^k - 1 ≤ maxFin` when `0 ≤ k ≤ p` and `k ≤ emax + 1`. -/
theorem pow_sub_one_le_maxFin (f : FloatFmt) (k : ℤ) (hk0 : 0 ≤ k) (hkp : k ≤ f.p)
    (hke : k ≤ f.emax + 1) : (2:ℚ)^k - 1 ≤ maxFin f := by
  rw [maxFin_eq]
  have hle1 : (2:ℚ)^(-f.p) ≤ 1 := by
    have := two_zpow_mono (show -f.p ≤ 0 by omega)
    simpa using this
  have hpos : (0:ℚ) ≤ 1 - (2:ℚ)^(-f.p) := by linarith
  have hE : (2:ℚ)^k ≤ (2:ℚ)^(f.emax+1) := two_zpow_mono hke
  have h1 : (2:ℚ)^k * (1 - (2:ℚ)^(-f.p)) ≤ (2:ℚ)^(f.emax+1) * (1 - (2:ℚ)^(-f.p)) :=
    mul_le_mul_of_nonneg_right hE hpos
  have h2 : (2:ℚ)^k * (2:ℚ)^(-f.p) = (2:ℚ)^(k - f.p) := by
    rw [← zpow_add₀ (by norm_num : (2:ℚ) ≠ 0)]; congr 1
  have h3 : (2:ℚ)^(k - f.p) ≤ 1 := by
    have := two_zpow_mono (show k - f.p ≤ 0 by omega)
    simpa using this
  have h4 : (2:ℚ)^k * (1 - (2:ℚ)^(-f.p)) = (2:ℚ)^k - (2:ℚ)^(k - f.p) := by
    rw [mul_sub, mul_one, h2]
  linarith

/-- An integer of magnitude below `2^k` (`0 ≤ k ≤ p`, `k ≤ emax+1`) is representable. -/
theorem int_rep (f : FloatFmt) (n : ℤ) (k : ℕ) (hn : |n| < 2 ^ k) (hkp : (k:ℤ) ≤ f.p)
    (hke : (k:ℤ) ≤ f.emax + 1) (hemin : f.emin ≤ 0) : Rep f (n : ℚ) := by
  have hq : |(n:ℚ)| < (2:ℚ)^(k:ℤ) := by
    have : ((|n| : ℤ) : ℚ) < ((2 ^ k : ℤ) : ℚ) := by exact_mod_cast hn
    simpa using this
  have hq' : |(n:ℚ)| ≤ (2:ℚ)^(k:ℤ) - 1 := by
    have : |n| ≤ 2 ^ k - 1 := by omega
    have : ((|n| : ℤ) : ℚ) ≤ ((2 ^ k - 1 : ℤ) : ℚ) := by exact_mod_cast this
    simpa using this
  refine ⟨n, 0, lt_of_lt_of_le hq (two_zpow_mono hkp), hemin, by simp, ?_⟩
  exact le_trans hq' (pow_sub_one_le_maxFin f k (by omega) hkp hke)

/-- `-2^k` is representable when `k ≤ emax` (one precision bit suffices). -/
theorem neg_pow_rep (f : FloatFmt) (k : ℕ) (hp : 1 ≤ f.p) (hke : (k:ℤ) ≤ f.emax)
    (hemin : f.emin ≤ 0) : Rep f (-(2:ℚ)^(k:ℤ)) := by
  refine ⟨-1, k, ?_, by omega, by simp, ?_⟩
  · have : (2:ℚ)^(1:ℤ) ≤ (2:ℚ)^f.p := two_zpow_mono hp
    have h1 : |((-1:ℤ):ℚ)| = 1 := by norm_num
    rw [h1]; simp at this; linarith
  · rw [abs_neg, abs_of_pos (two_zpow_pos _)]
    exact le_trans (two_zpow_mono hke) (pow_emax_le_maxFin f hp)

theorem zero_rep (f : FloatFmt) (hp : 0 ≤ f.p) (hemin : f.emin ≤ 0) (he : -1 ≤ f.emax) :
    Rep f 0 := by
  have := int_rep f 0 0 (by simp) (by simpa using hp) (by simp; omega) hemin
  simpa using this

end J2O.C17
