/-
C04 — helper definitions and lemmas (core Lean only; the property theorems are in
`J2O.Props.C04`).

* `tdiv_sub_fmod`, `onnx_eq_jax` : `Div(Sub(a, Mod(a,b)), b)` is Python's `//`; all four ops agree
* `same_eval`, `nf_eval`, `faithful_of_consistent` : soundness of the key-consistency checker
* `OrgSound`             : every symbol is read from an axis that really has that extent
* `lowerExpr_eval`       : the un-memoised chain computes the expression with ONNX semantics
* `Faithful`, `CacheOK`  : text keys that denote one value each; coherent memo
* `lowerExprC_good`      : the memoised walk returns the same value and keeps the memo coherent
-/
import J2O.Model.C04
set_option linter.unusedVariables false
set_option linter.unusedSectionVars false
set_option linter.unusedSimpArgs false

namespace J2O.C04


/-- **Floor division from truncating division.** `a - a mod b` (floor-mod: sign of the divisor) is an
    exact multiple of `b`, so ONNX's truncating `Div` of it is Python's `a // b` — for every sign
    combination (and `0` for `b = 0`, where both are `0` in Lean; Python raises there). -/
theorem tdiv_sub_fmod (a b : Int) : Int.tdiv (a - Int.fmod a b) b = Int.fdiv a b := by
  by_cases hb : b = 0
  · subst hb; simp
  · have h : a - Int.fmod a b = b * Int.fdiv a b := by
      have := Int.mul_fdiv_add_fmod a b
      omega
    rw [h, Int.mul_tdiv_cancel_left _ hb]

/-- the nodes the repaired lowerer emits mean exactly what JAX means, for all four operations -/
theorem onnx_eq_jax : OpKind.onnx = OpKind.jax := by
  funext o a b
  cases o
  · exact tdiv_sub_fmod a b
  all_goals rfl

/-- REGRESSION (old lowering, single `Div`): negative numerator, positive denominator, non-zero
    remainder ⇒ truncation is one above the floor. -/
theorem tdiv_eq_fdiv_add_one {x y : Int} (hx : x < 0) (hy : 0 < y) (hd : ¬ y ∣ x) :
    Int.tdiv x y = Int.fdiv x y + 1 := by
  have := @Int.fdiv_eq_tdiv x y
  have hx' : ¬ (0 ≤ x) := by omega
  have hs : y.sign = 1 := Int.sign_eq_one_of_pos hy
  simp [hd, hx', Int.le_of_lt hy, hs] at this; omega

/-- Every symbol of the expression is read from a tensor axis whose run-time extent is the symbol's value. -/
def OrgSound (org : Org) (shapes : String → Nat → Int) (σ : String → Int) (vars : List String) : Prop :=
  ∀ n ∈ vars, shapes (org n).1 (org n).2 = σ n

theorem withPow_eval (sh) (x : IntProg) (p : Nat) : (withPow x p).eval sh = x.eval sh ^ p := by
  unfold withPow
  split
  · rename_i h; subst h; exact (Int.pow_succ _ 0).symm ▸ by simp
  · simp [IntProg.eval]

theorem withCoeff_eval (sh) (x : IntProg) (c : Int) : (withCoeff x c).eval sh = x.eval sh * c := by
  unfold withCoeff
  split
  · rename_i h; subst h; simp
  · simp [IntProg.eval]

theorem node_eval (sh) (o : OpKind) (a b : IntProg) :
    (o.node a b).eval sh = OpKind.onnx o (a.eval sh) (b.eval sh) := by
  cases o <;> rfl

theorem OrgSound.app_left {org sh σ a b} (h : OrgSound org sh σ (a ++ b)) : OrgSound org sh σ a :=
  fun n hn => h n (List.mem_append_left _ hn)
theorem OrgSound.app_right {org sh σ a b} (h : OrgSound org sh σ (a ++ b)) : OrgSound org sh σ b :=
  fun n hn => h n (List.mem_append_right _ hn)

mutual
  theorem lowerFactor_eval (org sh σ) : (f : Factor) → OrgSound org sh σ f.vars →
      (lowerFactor org f).eval sh = f.evalWith OpKind.onnx σ
    | .var n, h => by
      simp only [lowerFactor, IntProg.eval, Factor.evalWith]
      exact h n (by simp [Factor.vars])
    | .op _ o a b, h => by
      simp only [Factor.vars] at h
      simp only [lowerFactor, node_eval, Factor.evalWith]
      rw [lowerExpr_eval org sh σ a h.app_left, lowerExpr_eval org sh σ b h.app_right]
  theorem lowerTermAcc_eval (org sh σ) (acc : IntProg) : (t : Term) → OrgSound org sh σ t.vars →
      (lowerTermAcc org acc t).eval sh = acc.eval sh * t.evalWith OpKind.onnx σ
    | .one, _ => by simp [lowerTermAcc, Term.evalWith]
    | .mul _ f p rest, h => by
      simp only [Term.vars] at h
      simp only [lowerTermAcc, Term.evalWith]
      rw [lowerTermAcc_eval org sh σ _ rest h.app_right]
      simp only [IntProg.eval, withPow_eval, lowerFactor_eval org sh σ f h.app_left, Int.mul_assoc]
  theorem lowerTC_eval (org sh σ) (c : Int) : (t : Term) → OrgSound org sh σ t.vars →
      (lowerTC org c t).eval sh = t.evalWith OpKind.onnx σ * c
    | .one, _ => by simp [lowerTC, Term.evalWith, IntProg.eval]
    | .mul _ f p rest, h => by
      simp only [Term.vars] at h
      simp only [lowerTC, withCoeff_eval, Term.evalWith]
      rw [lowerTermAcc_eval org sh σ _ rest h.app_right]
      simp only [withPow_eval, lowerFactor_eval org sh σ f h.app_left]
  theorem lowerTermsAcc_eval (org sh σ) (acc : IntProg) : (ts : Terms) → OrgSound org sh σ ts.vars →
      (lowerTermsAcc org acc ts).eval sh = acc.eval sh + ts.evalWith OpKind.onnx σ
    | .nil, _ => by simp [lowerTermsAcc, Terms.evalWith]
    | .cons _ _ t c rest, h => by
      simp only [Terms.vars] at h
      simp only [lowerTermsAcc, Terms.evalWith]
      rw [lowerTermsAcc_eval org sh σ _ rest h.app_right]
      simp only [IntProg.eval, lowerTC_eval org sh σ c t h.app_left, Int.add_assoc]
  theorem lowerExpr_eval (org sh σ) : (e : Expr) → OrgSound org sh σ e.vars →
      (lowerExpr org e).eval sh = e.evalWith OpKind.onnx σ
    | .mk _ .nil, _ => by simp [lowerExpr, Expr.evalWith, Terms.evalWith, IntProg.eval]
    | .mk _ (.cons _ _ t c rest), h => by
      simp only [Expr.vars, Terms.vars] at h
      simp only [lowerExpr, Expr.evalWith, Terms.evalWith]
      rw [lowerTermsAcc_eval org sh σ _ rest h.app_right, lowerTC_eval org sh σ c t h.app_left]
end
/-- every memoised chain has the value its key stands for -/
def CacheOK (D : Key → Int) (sh : String → Nat → Int) (c : Cache) : Prop :=
  ∀ k p, c.get? k = some p → p.eval sh = D k

/-- result of a lowering step: value `v`, cache still coherent -/
def Good (D : Key → Int) (sh : String → Nat → Int) (v : Int) (r : IntProg × Cache) : Prop :=
  r.1.eval sh = v ∧ CacheOK D sh r.2

theorem cacheOK_nil (D sh) : CacheOK D sh [] := by
  intro k p h; simp [Cache.get?] at h

theorem memo_good {D sh k c body v} (hc : CacheOK D sh c) (hk : D k = v)
    (hb : Good D sh v (body c)) : Good D sh v (memo k c body) := by
  unfold memo
  split
  · rename_i p hp
    exact ⟨by rw [hc k p hp, hk], hc⟩
  · refine ⟨hb.1, ?_⟩
    intro k' p hp
    simp only [Cache.put, Cache.get?] at hp
    split at hp
    · rename_i heq
      cases hp
      rw [← heq, hk]; exact hb.1
    · exact hb.2 k' p hp

theorem getScalar_good {D sh c} (hD : ∀ k, D (.num k) = k) (hc : CacheOK D sh c) (k : Int) :
    Good D sh k (getScalar k c) :=
  memo_good hc (hD k) ⟨rfl, hc⟩

theorem powC_good {D sh v} (hD : ∀ k, D (.num k) = k) (p : Nat) {r} (h : Good D sh v r) :
    Good D sh (v ^ p) (powC p r) := by
  unfold powC
  split
  · rename_i hp; subst hp; rw [Int.pow_succ, Int.pow_zero, Int.one_mul]; exact h
  · have hs := getScalar_good hD h.2 (p : Int)
    refine ⟨?_, hs.2⟩
    simp only [IntProg.eval, hs.1, h.1, Int.toNat_natCast]

theorem coeffC_good {D sh v} (hD : ∀ k, D (.num k) = k) (k : Int) {r} (h : Good D sh v r) :
    Good D sh (v * k) (coeffC k r) := by
  unfold coeffC
  split
  · rename_i hp; subst hp; rw [Int.mul_one]; exact h
  · have hs := getScalar_good hD h.2 k
    refine ⟨?_, hs.2⟩
    simp only [IntProg.eval, hs.1, h.1]

mutual
  def Factor.Faithful (D : Key → Int) (σ : String → Int) : Factor → Prop
    | .var n => D (.txt n) = σ n
    | .op key o a b =>
        D (.txt key) = OpKind.onnx o (a.evalWith OpKind.onnx σ) (b.evalWith OpKind.onnx σ)
        ∧ a.Faithful D σ ∧ b.Faithful D σ
  def Term.Faithful (D : Key → Int) (σ : String → Int) : Term → Prop
    | .one => True
    | .mul kFP f p rest =>
        D (.txt kFP) = f.evalWith OpKind.onnx σ ^ p ∧ f.Faithful D σ ∧ rest.Faithful D σ
  def Terms.Faithful (D : Key → Int) (σ : String → Int) : Terms → Prop
    | .nil => True
    | .cons kTC kT t c rest =>
        D (.txt kTC) = t.evalWith OpKind.onnx σ * c ∧ D (.txt kT) = t.evalWith OpKind.onnx σ
        ∧ t.Faithful D σ ∧ rest.Faithful D σ
  def Expr.Faithful (D : Key → Int) (σ : String → Int) : Expr → Prop
    | .mk kE ts => D (.txt kE) = ts.evalWith OpKind.onnx σ ∧ ts.Faithful D σ
end

section
variable (D : Key → Int) (org : Org) (sh : String → Nat → Int) (σ : String → Int)
  (hD : ∀ k, D (.num k) = k)
include hD

mutual
  theorem lowerFactorC_good (kFP : String) (p : Nat) : (f : Factor) → (c : Cache) →
      D (.txt kFP) = f.evalWith OpKind.onnx σ ^ p → f.Faithful D σ → OrgSound org sh σ f.vars →
      CacheOK D sh c → Good D sh (f.evalWith OpKind.onnx σ ^ p) (lowerFactorC org kFP p f c)
    | .var n, c, hk, hf, ho, hc => by
      simp only [lowerFactorC]
      refine memo_good hc hk (powC_good hD p ?_)
      simp only [Factor.Faithful] at hf
      refine memo_good hc hf ⟨?_, hc⟩
      simp only [IntProg.eval, Factor.evalWith]
      exact ho n (by simp [Factor.vars])
    | .op key o a b, c, hk, hf, ho, hc => by
      simp only [lowerFactorC]
      simp only [Factor.Faithful] at hf
      simp only [Factor.vars] at ho
      refine memo_good hc hk (powC_good hD p ?_)
      refine memo_good hc hf.1 ?_
      have ha := lowerExprC_good a c hf.2.1 ho.app_left hc
      have hb := lowerExprC_good b _ hf.2.2 ho.app_right ha.2
      exact ⟨by simp only [node_eval, ha.1, hb.1, Factor.evalWith], hb.2⟩
  theorem lowerTermAccC_good (acc : IntProg) : (t : Term) → (c : Cache) →
      t.Faithful D σ → OrgSound org sh σ t.vars → CacheOK D sh c →
      Good D sh (acc.eval sh * t.evalWith OpKind.onnx σ) (lowerTermAccC org acc t c)
    | .one, c, _, _, hc => by
      simp only [lowerTermAccC, Term.evalWith, Int.mul_one]; exact ⟨rfl, hc⟩
    | .mul kFP f p rest, c, hf, ho, hc => by
      simp only [Term.Faithful] at hf
      simp only [Term.vars] at ho
      simp only [lowerTermAccC, Term.evalWith]
      have h1 := lowerFactorC_good kFP p f c hf.1 hf.2.1 ho.app_left hc
      have h2 := lowerTermAccC_good (.mul acc (lowerFactorC org kFP p f c).1) rest _ hf.2.2 ho.app_right h1.2
      simp only [IntProg.eval, h1.1, Int.mul_assoc] at h2
      exact h2
  theorem lowerTCC_good (kTC kT : String) (k : Int) : (t : Term) → (c : Cache) →
      D (.txt kTC) = t.evalWith OpKind.onnx σ * k → D (.txt kT) = t.evalWith OpKind.onnx σ →
      t.Faithful D σ → OrgSound org sh σ t.vars → CacheOK D sh c →
      Good D sh (t.evalWith OpKind.onnx σ * k) (lowerTCC org kTC kT k t c)
    | .one, c, hk, _, _, _, hc => by
      simp only [lowerTCC]
      refine memo_good hc hk ?_
      simp only [Term.evalWith, Int.one_mul]
      exact getScalar_good hD hc k
    | .mul kFP f p rest, c, hk, hkt, hf, ho, hc => by
      simp only [lowerTCC]
      simp only [Term.Faithful] at hf
      simp only [Term.vars] at ho
      refine memo_good hc hk (coeffC_good hD k ?_)
      refine memo_good hc hkt ?_
      have h1 := lowerFactorC_good kFP p f c hf.1 hf.2.1 ho.app_left hc
      have h2 := lowerTermAccC_good (lowerFactorC org kFP p f c).1 rest _ hf.2.2 ho.app_right h1.2
      simp only [h1.1] at h2
      simpa only [Term.evalWith] using h2
  theorem lowerTermsAccC_good (acc : IntProg) : (ts : Terms) → (c : Cache) →
      ts.Faithful D σ → OrgSound org sh σ ts.vars → CacheOK D sh c →
      Good D sh (acc.eval sh + ts.evalWith OpKind.onnx σ) (lowerTermsAccC org acc ts c)
    | .nil, c, _, _, hc => by
      simp only [lowerTermsAccC, Terms.evalWith, Int.add_zero]; exact ⟨rfl, hc⟩
    | .cons kTC kT t k rest, c, hf, ho, hc => by
      simp only [Terms.Faithful] at hf
      simp only [Terms.vars] at ho
      simp only [lowerTermsAccC, Terms.evalWith]
      have h1 := lowerTCC_good kTC kT k t c hf.1 hf.2.1 hf.2.2.1 ho.app_left hc
      have h2 := lowerTermsAccC_good (.add acc (lowerTCC org kTC kT k t c).1) rest _ hf.2.2.2 ho.app_right h1.2
      simp only [IntProg.eval, h1.1, Int.add_assoc] at h2
      exact h2
  theorem lowerExprC_good : (e : Expr) → (c : Cache) →
      e.Faithful D σ → OrgSound org sh σ e.vars → CacheOK D sh c →
      Good D sh (e.evalWith OpKind.onnx σ) (lowerExprC org e c)
    | .mk kE .nil, c, hf, _, hc => by
      simp only [lowerExprC, Expr.evalWith]
      simp only [Expr.Faithful] at hf
      exact memo_good hc hf.1 ⟨by simp [IntProg.eval, Terms.evalWith], hc⟩
    | .mk kE (.cons kTC kT t k rest), c, hf, ho, hc => by
      simp only [lowerExprC, Expr.evalWith]
      simp only [Expr.Faithful] at hf
      simp only [Expr.vars, Terms.vars] at ho
      refine memo_good hc hf.1 ?_
      have hf2 := hf.2
      simp only [Terms.Faithful] at hf2
      have h1 := lowerTCC_good kTC kT k t c hf2.1 hf2.2.1 hf2.2.2.1 ho.app_left hc
      have h2 := lowerTermsAccC_good (lowerTCC org kTC kT k t c).1 rest _ hf2.2.2.2 ho.app_right h1.2
      simp only [h1.1] at h2
      simpa only [Terms.evalWith] using h2
end
end

/-! ### Soundness of the key-consistency checker -/

mutual
  theorem Factor.same_eval (sem) (σ : String → Int) : (a b : Factor) → a.same b = true →
      a.evalWith sem σ = b.evalWith sem σ
    | .var x, .var y, h => by
      simp only [Factor.same, beq_iff_eq] at h; subst h; rfl
    | .op _ o a b, .op _ o' a' b', h => by
      simp only [Factor.same, Bool.and_eq_true, beq_iff_eq] at h
      obtain ⟨⟨ho, ha⟩, hb⟩ := h
      subst ho
      simp only [Factor.evalWith, Expr.same_eval sem σ a a' ha, Expr.same_eval sem σ b b' hb]
    | .var _, .op _ _ _ _, h => by simp [Factor.same] at h
    | .op _ _ _ _, .var _, h => by simp [Factor.same] at h
  theorem Term.same_eval (sem) (σ : String → Int) : (a b : Term) → a.same b = true →
      a.evalWith sem σ = b.evalWith sem σ
    | .one, .one, _ => rfl
    | .mul _ f p r, .mul _ f' p' r', h => by
      simp only [Term.same, Bool.and_eq_true, beq_iff_eq] at h
      obtain ⟨⟨hf, hp⟩, hr⟩ := h
      subst hp
      simp only [Term.evalWith, Factor.same_eval sem σ f f' hf, Term.same_eval sem σ r r' hr]
    | .one, .mul _ _ _ _, h => by simp [Term.same] at h
    | .mul _ _ _ _, .one, h => by simp [Term.same] at h
  theorem Terms.same_eval (sem) (σ : String → Int) : (a b : Terms) → a.same b = true →
      a.evalWith sem σ = b.evalWith sem σ
    | .nil, .nil, _ => rfl
    | .cons _ _ t c r, .cons _ _ t' c' r', h => by
      simp only [Terms.same, Bool.and_eq_true, beq_iff_eq] at h
      obtain ⟨⟨ht, hc⟩, hr⟩ := h
      subst hc
      simp only [Terms.evalWith, Term.same_eval sem σ t t' ht, Terms.same_eval sem σ r r' hr]
    | .nil, .cons _ _ _ _ _, h => by simp [Terms.same] at h
    | .cons _ _ _ _ _, .nil, h => by simp [Terms.same] at h
  theorem Expr.same_eval (sem) (σ : String → Int) : (a b : Expr) → a.same b = true →
      a.evalWith sem σ = b.evalWith sem σ
    | .mk _ x, .mk _ y, h => by
      simp only [Expr.same] at h
      simp only [Expr.evalWith, Terms.same_eval sem σ x y h]
end

theorem nf_eval (sem) (σ : String → Int) : (d : Den) → d.nf.evalWith sem σ = d.eval sem σ
  | .fac f => by
    simp only [Den.nf, Den.eval, Terms.evalWith, Term.evalWith, Int.mul_one, Int.add_zero]
    rw [Int.pow_succ, Int.pow_zero, Int.one_mul]
  | .fp f p => by simp [Den.nf, Den.eval, Terms.evalWith, Term.evalWith]
  | .term t => by simp [Den.nf, Den.eval, Terms.evalWith]
  | .tc t c => by simp [Den.nf, Den.eval, Terms.evalWith]
  | .expr (.mk _ ts) => by simp [Den.nf, Den.eval, Expr.evalWith]

/-- the value assignment the checker justifies: a text key means what the first item carrying it means -/
def Dof (items : List (String × Den)) (σ : String → Int) : Key → Int
  | .num k => k
  | .txt s => match firstWith items s with
    | some d => d.eval OpKind.onnx σ
    | none => 0

theorem Dof_of_consistent (items : List (String × Den)) (σ : String → Int)
    (h : itemsConsistent items = true) (k : String) (d : Den) (hm : (k, d) ∈ items) :
    Dof items σ (.txt k) = d.eval OpKind.onnx σ := by
  unfold itemsConsistent at h
  rw [List.all_eq_true] at h
  have := h (k, d) hm
  simp only [Dof]
  cases hf : firstWith items k with
  | none => simp [hf] at this
  | some d0 =>
    simp only [hf] at this
    simp only []
    rw [← nf_eval, ← nf_eval OpKind.onnx σ d]
    exact Terms.same_eval OpKind.onnx σ _ _ this

/-- items membership is what `Faithful` asks for -/
def ItemsOK (D : Key → Int) (σ : String → Int) (its : List (String × Den)) : Prop :=
  ∀ k d, (k, d) ∈ its → D (.txt k) = d.eval OpKind.onnx σ

theorem ItemsOK.sub {D σ a b} (h : ItemsOK D σ b) (hs : ∀ x, x ∈ a → x ∈ b) : ItemsOK D σ a :=
  fun k d hm => h k d (hs _ hm)

mutual
  theorem Factor.faithful_of_items (D : Key → Int) (σ : String → Int) : (f : Factor) →
      ItemsOK D σ f.items → f.Faithful D σ
    | .var n, h => by
      simpa [Factor.Faithful, Den.eval, Factor.evalWith] using h n (.fac (.var n)) (by simp [Factor.items])
    | .op key o a b, h => by
      refine ⟨?_, Expr.faithful_of_items D σ a (h.sub ?_), Expr.faithful_of_items D σ b (h.sub ?_)⟩
      · simpa [Den.eval, Factor.evalWith] using h key (.fac (.op key o a b)) (by simp [Factor.items])
      · intro x hx; simp [Factor.items, hx]
      · intro x hx; simp [Factor.items, hx]
  theorem Term.faithful_of_items (D : Key → Int) (σ : String → Int) : (t : Term) →
      ItemsOK D σ t.items → t.Faithful D σ
    | .one, _ => trivial
    | .mul kFP f p rest, h => by
      refine ⟨?_, Factor.faithful_of_items D σ f (h.sub ?_), Term.faithful_of_items D σ rest (h.sub ?_)⟩
      · simpa [Den.eval] using h kFP (.fp f p) (by simp [Term.items])
      · intro x hx; simp [Term.items, hx]
      · intro x hx; simp [Term.items, hx]
  theorem Terms.faithful_of_items (D : Key → Int) (σ : String → Int) : (ts : Terms) →
      ItemsOK D σ ts.items → ts.Faithful D σ
    | .nil, _ => trivial
    | .cons kTC kT t c rest, h => by
      refine ⟨?_, ?_, Term.faithful_of_items D σ t (h.sub ?_), Terms.faithful_of_items D σ rest (h.sub ?_)⟩
      · simpa [Den.eval] using h kTC (.tc t c) (by simp [Terms.items])
      · simpa [Den.eval] using h kT (.term t) (by simp [Terms.items])
      · intro x hx; simp [Terms.items, hx]
      · intro x hx; simp [Terms.items, hx]
  theorem Expr.faithful_of_items (D : Key → Int) (σ : String → Int) : (e : Expr) →
      ItemsOK D σ e.items → e.Faithful D σ
    | .mk kE ts, h => by
      refine ⟨?_, Terms.faithful_of_items D σ ts (h.sub ?_)⟩
      · simpa [Den.eval, Expr.evalWith] using h kE (.expr (.mk kE ts)) (by simp [Expr.items])
      · intro x hx; simp [Expr.items, hx]
end

theorem items_mem_all : ∀ (es : List Expr) (e : Expr), e ∈ es → ∀ x, x ∈ e.items → x ∈ allItems es
  | e' :: es, e, h, x, hx => by
    simp only [allItems, List.mem_append]
    rcases List.mem_cons.mp h with rfl | h'
    · exact Or.inl hx
    · exact Or.inr (items_mem_all es e h' x hx)

/-- **Checker soundness.** If the keys of all expressions lowered through one memo pass the check,
    every one of them is `Faithful` for the value assignment `Dof`, for every binding. -/
theorem faithful_of_consistent (es : List Expr) (σ : String → Int) (h : keysConsistent es = true) :
    ∀ e ∈ es, e.Faithful (Dof (allItems es) σ) σ := by
  intro e he
  apply Expr.faithful_of_items
  intro k d hm
  exact Dof_of_consistent _ σ h k d (items_mem_all es e he _ hm)

end J2O.C04
