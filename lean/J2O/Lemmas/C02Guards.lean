/-
C02 — lemmas about the optimizer's guard kernels (`Model/C02Guards.lean`): what each guard accepts,
stated on tokens; `Props/C02Guards.lean` turns them into semantic statements.
-/
import J2O.Model.C02Guards
import J2O.Lemmas.C02Rules

namespace J2O.C02.Guards
open J2O J2O.C02

/-- token-level equality without unknowns -/
def eqTok (as bs : List Dim) : Bool := as = bs && as.all (fun d => !d.isUnk)

theorem eqTok_cons_known (m : Nat) (as bs : List Dim) (h : eqTok as bs = true) :
    eqTok (.known m :: as) (.known m :: bs) = true := by
  simp only [eqTok, Bool.and_eq_true, decide_eq_true_eq, List.all_eq_true] at h ⊢
  obtain ⟨h1, h2⟩ := h
  subst h1
  refine ⟨rfl, ?_⟩
  intro d hd
  rcases List.mem_cons.mp hd with rfl | hd
  · simp [Dim.isUnk]
  · exact h2 d hd

theorem eqTok_cons_sym (s : String) (as bs : List Dim) (h : eqTok as bs = true) :
    eqTok (.sym s :: as) (.sym s :: bs) = true := by
  simp only [eqTok, Bool.and_eq_true, decide_eq_true_eq, List.all_eq_true] at h ⊢
  obtain ⟨h1, h2⟩ := h
  subst h1
  refine ⟨rfl, ?_⟩
  intro d hd
  rcases List.mem_cons.mp hd with rfl | hd
  · simp [Dim.isUnk]
  · exact h2 d hd

/-- **Characterisation of the `_shapes_compatible` loop.** With `u` uncomparable positions and the
    may-be-zero flag `z` accumulated so far, acceptance of the remaining suffixes means: nothing was
    uncomparable and the suffixes are token-equal, or exactly one position (so far or in the suffix) is
    uncomparable, no extent may be zero, and all other suffix positions carry equal positive literals. -/
theorem scGo_spec : ∀ (as bs : List Dim) (u : Nat) (z : Bool), scGo as bs u z = true →
    (u = 0 ∧ (eqTok as bs = true ∨ (z = false ∧ oneOff as bs = true))) ∨
    (u = 1 ∧ z = false ∧ allPos as bs = true) := by
  intro as
  induction as with
  | nil =>
    intro bs u z h
    cases bs with
    | nil =>
      simp only [scGo, Bool.or_eq_true, beq_iff_eq, Bool.and_eq_true, Bool.not_eq_true'] at h
      rcases h with h | ⟨h1, h2⟩
      · left; exact ⟨h, Or.inl (by simp [eqTok])⟩
      · right; exact ⟨h1, h2, by simp [allPos]⟩
    | cons b bs => simp [scGo] at h
  | cons a as ih =>
    intro bs u z h
    cases bs with
    | nil => simp [scGo] at h
    | cons b bs =>
      -- the "uncomparable" continuation, shared by all mixed cases
      have mixed : scGo as bs (u + 1) z = true →
          (u = 0 ∧ (eqTok (a :: as) (b :: bs) = true ∨ (z = false ∧ oneOff (a :: as) (b :: bs) = true))) ∨
          (u = 1 ∧ z = false ∧ allPos (a :: as) (b :: bs) = true) := by
        intro h'
        rcases ih bs (u + 1) z h' with ⟨hu, _⟩ | ⟨hu, hz, hp⟩
        · omega
        · left
          refine ⟨by omega, Or.inr ⟨hz, ?_⟩⟩
          simp [oneOff, hp]
      cases a with
      | known m =>
        cases b with
        | known n =>
          simp only [scGo, Bool.and_eq_true, beq_iff_eq] at h
          obtain ⟨hmn, h'⟩ := h
          subst hmn
          rcases ih bs u (z || m == 0) h' with ⟨hu, hcase⟩ | ⟨hu, hz, hp⟩
          · left
            refine ⟨hu, ?_⟩
            rcases hcase with he | ⟨hz, ho⟩
            · exact Or.inl (eqTok_cons_known m as bs he)
            · simp only [Bool.or_eq_false_iff, beq_eq_false_iff_ne, ne_eq] at hz
              refine Or.inr ⟨hz.1, ?_⟩
              have : 0 < m := by omega
              simp [oneOff, Dim.posEq, this, ho]
          · right
            simp only [Bool.or_eq_false_iff, beq_eq_false_iff_ne, ne_eq] at hz
            refine ⟨hu, hz.1, ?_⟩
            have : 0 < m := by omega
            simp [allPos, Dim.posEq, this, hp]
        | sym t => exact mixed (by simpa [scGo] using h)
        | unk => exact mixed (by simpa [scGo] using h)
      | sym s =>
        cases b with
        | known n => exact mixed (by simpa [scGo] using h)
        | sym t =>
          simp only [scGo] at h
          split at h
          · rename_i hst
            have hst' : s = t := by simpa using hst
            subst hst'
            rcases ih bs u true h with ⟨hu, hcase⟩ | ⟨_, hz, _⟩
            · left
              refine ⟨hu, ?_⟩
              rcases hcase with he | ⟨hz, _⟩
              · exact Or.inl (eqTok_cons_sym s as bs he)
              · cases hz
            · cases hz
          · exact mixed h
        | unk => exact mixed (by simpa [scGo] using h)
      | unk => exact mixed (by cases b <;> simpa [scGo] using h)

/-- What `_shapes_compatible` accepts is what the validator's Reshape rule accepts. -/
theorem shapesCompatible_tokens (so sa : List Dim)
    (h : shapesCompatible (some so) (some sa) = true) :
    ((so = sa && so.all (fun d => !d.isUnk)) || oneOff so sa) = true := by
  simp only [shapesCompatible] at h
  rcases scGo_spec so sa 0 false h with ⟨_, hcase⟩ | ⟨hu, _⟩
  · rcases hcase with he | ⟨_, ho⟩
    · simp only [eqTok] at he
      simp [he]
    · simp [ho]
  · omega

theorem posEq_symm (a b : Dim) : a.posEq b = b.posEq a := by
  cases a with
  | known m =>
    cases b with
    | known n =>
      simp only [Dim.posEq]
      by_cases h : m = n
      · subst h; rfl
      · have h' : ¬ n = m := fun e => h e.symm
        have e1 : (m == n) = false := by simpa using h
        have e2 : (n == m) = false := by simpa using h'
        rw [e1, e2]; rfl
    | sym _ => rfl
    | unk => rfl
  | sym _ => cases b <;> rfl
  | unk => cases b <;> rfl

theorem allPos_symm : ∀ (as bs : List Dim), allPos as bs = allPos bs as := by
  intro as
  induction as with
  | nil => intro bs; cases bs <;> simp [allPos]
  | cons a as ih =>
    intro bs
    cases bs with
    | nil => simp [allPos]
    | cons b bs => simp [allPos, posEq_symm a b, ih bs]

theorem oneOff_symm : ∀ (as bs : List Dim), oneOff as bs = true → oneOff bs as = true := by
  intro as
  induction as with
  | nil => intro bs h; simp [oneOff] at h
  | cons a as ih =>
    intro bs h
    cases bs with
    | nil => simp [oneOff] at h
    | cons b bs =>
      simp only [oneOff, Bool.or_eq_true, Bool.and_eq_true] at h ⊢
      rcases h with ⟨h1, h2⟩ | h
      · exact Or.inl ⟨by rw [posEq_symm]; exact h1, ih bs h2⟩
      · exact Or.inr (by rw [allPos_symm]; exact h)

/-- `_shapes_match_exact` accepts only literal sources equal to the (then non-negative) target. -/
theorem matchExact_spec : ∀ (ds : List Dim) (ts : List Int), matchExact (some ds) ts = true →
    ds.length = ts.length ∧ ∀ k (h1 : k < ds.length) (h2 : k < ts.length),
      ∃ n : Nat, ds[k] = .known n ∧ ts[k] = (n : Int) := by
  intro ds
  induction ds with
  | nil =>
    intro ts h
    cases ts with
    | nil => exact ⟨rfl, fun k h1 => absurd h1 (by simp)⟩
    | cons t ts => simp [matchExact] at h
  | cons d ds ih =>
    intro ts h
    cases ts with
    | nil => cases d <;> simp [matchExact] at h
    | cons t ts =>
      cases d with
      | known n =>
        simp only [matchExact, Bool.and_eq_true, beq_iff_eq] at h
        obtain ⟨hn, h'⟩ := h
        obtain ⟨hl, hk⟩ := ih ts h'
        refine ⟨by simp [hl], ?_⟩
        intro k h1 h2
        cases k with
        | zero => exact ⟨n, rfl, hn.symm⟩
        | succ k =>
          simp only [List.length_cons, Nat.add_lt_add_iff_right] at h1 h2
          simpa using hk k h1 h2
      | sym s => simp [matchExact] at h
      | unk => simp [matchExact] at h

/-- `_chain_side_inputs_ok` for an ordinary elementwise node: every operand is the chain value, absent,
    or a scalar constant. -/
theorem chainSideOk_spec (ins : List Operand) (h : chainSideOk false ins = true) :
    ∀ o ∈ ins, o = .chain ∨ o = .absent ∨ o = .scalarConst := by
  intro o ho
  simp only [chainSideOk, Bool.false_eq_true, if_false, List.all_eq_true, bne_iff_ne, ne_eq] at h
  have := h o ho
  cases o <;> simp_all

/-- `_chain_side_inputs_ok` for `CastLike`: the chain value is the DATA operand (input 0). -/
theorem chainSideOk_castLike (ins : List Operand) (h : chainSideOk true ins = true) :
    ins.head? = some .chain := by
  simp only [chainSideOk, if_true] at h
  split at h
  · rfl
  · cases h

end J2O.C02.Guards
