/-
Helper lemmas for C03 (core Lean only): Boolean list tests ⇒ their propositional meaning, the
"split at the first / last character outside a class" lemma, decimal digits are injective.
-/
import J2O.Model.C03

namespace J2O.C03
open J2O.MT

theorem contains_mem {x : String} {l : List String} : l.contains x = true ↔ x ∈ l :=
  List.contains_iff_mem

theorem nodupB_sound : ∀ l : List String, nodupB l = true → l.Nodup
  | [], _ => List.nodup_nil
  | x :: xs, h => by
    simp only [nodupB, Bool.and_eq_true, Bool.not_eq_true', ← Bool.not_eq_true] at h
    refine List.nodup_cons.mpr ⟨?_, nodupB_sound xs h.2⟩
    intro hx
    exact h.1 (contains_mem.mpr hx)

theorem disjointB_sound (xs ys : List String) (h : disjointB xs ys = true) :
    ∀ x ∈ xs, x ∉ ys := by
  intro x hx hy
  have := (List.all_eq_true.mp h) x hx
  simp only [Bool.not_eq_true', ← Bool.not_eq_true] at this
  exact this (contains_mem.mpr hy)

theorem nodupKeys_sound : ∀ l : List (String × String), nodupKeys l = true → l.Nodup
  | [], _ => List.nodup_nil
  | x :: xs, h => by
    simp only [nodupKeys, Bool.and_eq_true, Bool.not_eq_true', ← Bool.not_eq_true] at h
    refine List.nodup_cons.mpr ⟨?_, nodupKeys_sound xs h.2⟩
    intro hx
    exact h.1 (List.contains_iff_mem.mpr hx)

theorem definedBy_cons (n : Node) (ns : List Node) : definedBy (n :: ns) = n.outs ++ definedBy ns := by
  simp [definedBy]

theorem definedBy_nil : definedBy [] = [] := rfl

theorem checkBodies_mem (vis : List String) (bs : List Graph) (h : checkBodies vis bs = true) :
    ∀ b ∈ bs, checkGraph vis b = true := by
  induction bs with
  | nil => intro b hb; cases hb
  | cons x xs ih =>
    simp only [checkBodies, Bool.and_eq_true] at h
    intro b hb
    cases hb with
    | head => exact h.1
    | tail _ hb => exact ih h.2 b hb

/-! ### splitting a string at the first character outside a class -/

theorem split_first {α : Type} (P : α → Prop) :
    ∀ (a₁ a₂ y₁ y₂ : List α) (s t : α), (∀ c ∈ a₁, P c) → (∀ c ∈ a₂, P c) → ¬ P s → ¬ P t →
      a₁ ++ s :: y₁ = a₂ ++ t :: y₂ → a₁ = a₂ ∧ s = t ∧ y₁ = y₂
  | [], [], _, _, _, _, _, _, _, _, h => by
    simp only [List.nil_append, List.cons.injEq] at h
    exact ⟨rfl, h.1, h.2⟩
  | [], c :: a₂, _, _, s, _, _, h2, hs, _, h => by
    simp only [List.nil_append, List.cons_append, List.cons.injEq] at h
    exact absurd (h.1 ▸ h2 c (List.mem_cons_self)) hs
  | c :: a₁, [], _, _, _, t, h1, _, _, ht, h => by
    simp only [List.nil_append, List.cons_append, List.cons.injEq] at h
    exact absurd (h.1 ▸ h1 c (List.mem_cons_self)) ht
  | c :: a₁, d :: a₂, y₁, y₂, s, t, h1, h2, hs, ht, h => by
    simp only [List.cons_append, List.cons.injEq] at h
    have ih := split_first P a₁ a₂ y₁ y₂ s t (fun x hx => h1 x (List.mem_cons_of_mem _ hx))
      (fun x hx => h2 x (List.mem_cons_of_mem _ hx)) hs ht h.2
    exact ⟨by rw [h.1, ih.1], ih.2.1, ih.2.2⟩

/-- Split at the *last* character outside the class `P`. -/
theorem split_last {α : Type} (P : α → Prop) (x₁ x₂ d₁ d₂ : List α) (s t : α)
    (h1 : ∀ c ∈ d₁, P c) (h2 : ∀ c ∈ d₂, P c) (hs : ¬ P s) (ht : ¬ P t)
    (h : x₁ ++ s :: d₁ = x₂ ++ t :: d₂) : x₁ = x₂ ∧ s = t ∧ d₁ = d₂ := by
  have hr := congrArg List.reverse h
  simp only [List.reverse_append, List.reverse_cons, List.append_assoc, List.singleton_append] at hr
  have := split_first P d₁.reverse d₂.reverse x₁.reverse x₂.reverse s t
    (fun c hc => h1 c (List.mem_reverse.mp hc)) (fun c hc => h2 c (List.mem_reverse.mp hc)) hs ht hr
  exact ⟨List.reverse_inj.mp this.2.2, this.2.1, List.reverse_inj.mp this.1⟩

theorem snoc_of_getLast? {α : Type} : ∀ (b : List α) (c : α), b.getLast? = some c → ∃ x, b = x ++ [c]
  | [], c, h => by simp at h
  | [a], c, h => by
    simp only [List.getLast?_singleton, Option.some.injEq] at h
    exact ⟨[], by simp [h]⟩
  | a :: a' :: r, c, h => by
    have h' : (a' :: r).getLast? = some c := by simpa [List.getLast?_cons_cons] using h
    obtain ⟨x, hx⟩ := snoc_of_getLast? (a' :: r) c h'
    exact ⟨a :: x, by rw [hx]; rfl⟩

theorem definedBy_take_sublist : ∀ (ns : List Node) (i : Nat),
    (definedBy (ns.take i)).Sublist (definedBy ns)
  | [], i => by simp [definedBy_nil]
  | n :: ns, 0 => by simp [definedBy_nil]
  | n :: ns, i + 1 => by
    simp only [List.take_succ_cons, definedBy_cons]
    exact List.Sublist.append (List.Sublist.refl _) (definedBy_take_sublist ns i)

/-! ### decimal digits -/

/-- least significant digit first -/
def digitsRev : Nat → Nat → Str
  | 0, _ => []
  | fuel + 1, n =>
    if n < 10 then [digitChar n] else digitChar (n % 10) :: digitsRev fuel (n / 10)

def valRev : Str → Nat
  | [] => 0
  | c :: cs => (c.toNat - 48) + 10 * valRev cs

theorem digitChar_toNat : ∀ d, d < 10 → (digitChar d).toNat = 48 + d := by decide

theorem digitChar_isDigit : ∀ d, d < 10 → isDigit (digitChar d) = true := by decide

theorem digitsAux_eq (fuel n : Nat) (acc : Str) :
    digitsAux fuel n acc = (digitsRev fuel n).reverse ++ acc := by
  induction fuel generalizing n acc with
  | zero => simp [digitsAux, digitsRev]
  | succ f ih =>
    simp only [digitsAux, digitsRev]
    split
    · simp
    · rw [ih]; simp

theorem digits_eq (n : Nat) : digits n = (digitsRev (n + 1) n).reverse := by
  simp [digits, digitsAux_eq]

theorem valRev_digitsRev (fuel n : Nat) (h : n < fuel) : valRev (digitsRev fuel n) = n := by
  induction fuel generalizing n with
  | zero => omega
  | succ f ih =>
    simp only [digitsRev]
    split
    · rename_i hlt
      simp only [valRev, digitChar_toNat n hlt]; omega
    · rename_i hge
      have h10 : n % 10 < 10 := Nat.mod_lt _ (by decide)
      simp only [valRev, digitChar_toNat _ h10]
      rw [ih (n / 10) (by omega)]
      omega

theorem digits_inj (a b : Nat) (h : digits a = digits b) : a = b := by
  rw [digits_eq, digits_eq] at h
  have h' := List.reverse_inj.mp h
  have ha := valRev_digitsRev (a + 1) a (by omega)
  have hb := valRev_digitsRev (b + 1) b (by omega)
  rw [h'] at ha
  omega

theorem digitsRev_isDigit (fuel n : Nat) : ∀ c ∈ digitsRev fuel n, isDigit c = true := by
  induction fuel generalizing n with
  | zero => intro c hc; simp [digitsRev] at hc
  | succ f ih =>
    intro c hc
    simp only [digitsRev] at hc
    split at hc
    · rename_i hlt
      simp only [List.mem_singleton] at hc
      rw [hc]; exact digitChar_isDigit n hlt
    · simp only [List.mem_cons] at hc
      rcases hc with hc | hc
      · rw [hc]; exact digitChar_isDigit _ (Nat.mod_lt _ (by decide))
      · exact ih _ c hc

theorem digits_isDigit (n : Nat) : ∀ c ∈ digits n, isDigit c = true := by
  intro c hc
  rw [digits_eq] at hc
  exact digitsRev_isDigit _ _ c (List.mem_reverse.mp hc)

theorem underscore_not_digit : ¬ (isDigit '_' = true) := by decide
theorem slash_not_digit : ¬ (isDigit '/' = true) := by decide

end J2O.C03
